// Supplementary material (NOT a bug reproducer; all tests in here pass on the unmodified library):
// randomised differential tests of property C03 against an independent reference model.
// Copy to microscpi/tests/ and run: cargo test --workspace --offline --test explore_differential -- --nocapture
// Exploratory differential test for property C03.
#![allow(dead_code)]
use std::future::Future;
use std::pin::Pin;
use std::task::{Context, Poll, RawWaker, RawWakerVTable, Waker};

use microscpi::{self as scpi, Adapter, Interface};

fn noop_waker() -> Waker {
    fn clone(_: *const ()) -> RawWaker {
        RawWaker::new(std::ptr::null(), &VTABLE)
    }
    fn noop(_: *const ()) {}
    static VTABLE: RawWakerVTable = RawWakerVTable::new(clone, noop, noop, noop);
    unsafe { Waker::from_raw(RawWaker::new(std::ptr::null(), &VTABLE)) }
}

fn block_on<F: Future>(fut: F) -> F::Output {
    let waker = noop_waker();
    let mut cx = Context::from_waker(&waker);
    let mut fut = Box::pin(fut);
    loop {
        if let Poll::Ready(v) = fut.as_mut().poll(&mut cx) {
            return v;
        }
    }
}

/// A future that is pending `n` times.
struct Yield(u32);
impl Future for Yield {
    type Output = ();
    fn poll(mut self: Pin<&mut Self>, cx: &mut Context<'_>) -> Poll<()> {
        if self.0 == 0 {
            Poll::Ready(())
        }
        else {
            self.0 -= 1;
            cx.waker().wake_by_ref();
            Poll::Pending
        }
    }
}

#[derive(Debug, Clone, PartialEq)]
pub enum Arg {
    I(i128),
    F32(u32),
    F64(u64),
    B(bool),
    S(Vec<u8>),
    Blk(Vec<u8>),
}

#[derive(Default)]
pub struct Dev {
    log: Vec<(&'static str, Vec<Arg>)>,
    errors: Vec<scpi::Error>,
}

impl scpi::ErrorHandler for Dev {
    fn handle_error(&mut self, error: scpi::Error) {
        self.errors.push(error);
    }
}

#[scpi::interface]
impl Dev {
    #[scpi(cmd = "U8")]
    fn u8_(&mut self, v: u8) -> Result<(), scpi::Error> {
        self.log.push(("U8", vec![Arg::I(v as i128)]));
        Ok(())
    }
    #[scpi(cmd = "I8")]
    async fn i8_(&mut self, v: i8) -> Result<(), scpi::Error> {
        Yield(2).await;
        self.log.push(("I8", vec![Arg::I(v as i128)]));
        Ok(())
    }
    #[scpi(cmd = "U16")]
    fn u16_(&mut self, v: u16) -> Result<(), scpi::Error> {
        self.log.push(("U16", vec![Arg::I(v as i128)]));
        Ok(())
    }
    #[scpi(cmd = "I16")]
    fn i16_(&mut self, v: i16) -> Result<(), scpi::Error> {
        self.log.push(("I16", vec![Arg::I(v as i128)]));
        Ok(())
    }
    #[scpi(cmd = "U32")]
    fn u32_(&mut self, v: u32) -> Result<(), scpi::Error> {
        self.log.push(("U32", vec![Arg::I(v as i128)]));
        Ok(())
    }
    #[scpi(cmd = "I32")]
    async fn i32_(&mut self, v: i32) -> Result<(), scpi::Error> {
        self.log.push(("I32", vec![Arg::I(v as i128)]));
        Ok(())
    }
    #[scpi(cmd = "U64")]
    fn u64_(&mut self, v: u64) -> Result<(), scpi::Error> {
        self.log.push(("U64", vec![Arg::I(v as i128)]));
        Ok(())
    }
    #[scpi(cmd = "I64")]
    fn i64_(&mut self, v: i64) -> Result<(), scpi::Error> {
        self.log.push(("I64", vec![Arg::I(v as i128)]));
        Ok(())
    }
    #[scpi(cmd = "USZ")]
    fn usz(&mut self, v: usize) -> Result<(), scpi::Error> {
        self.log.push(("USZ", vec![Arg::I(v as i128)]));
        Ok(())
    }
    #[scpi(cmd = "ISZ")]
    fn isz(&mut self, v: isize) -> Result<(), scpi::Error> {
        self.log.push(("ISZ", vec![Arg::I(v as i128)]));
        Ok(())
    }
    #[scpi(cmd = "F32")]
    fn f32_(&mut self, v: f32) -> Result<(), scpi::Error> {
        self.log.push(("F32", vec![Arg::F32(v.to_bits())]));
        Ok(())
    }
    #[scpi(cmd = "F64")]
    async fn f64_(&mut self, v: f64) -> Result<(), scpi::Error> {
        Yield(1).await;
        self.log.push(("F64", vec![Arg::F64(v.to_bits())]));
        Ok(())
    }
    #[scpi(cmd = "BOOL")]
    fn bool_(&mut self, v: bool) -> Result<(), scpi::Error> {
        self.log.push(("BOOL", vec![Arg::B(v)]));
        Ok(())
    }
    #[scpi(cmd = "STR")]
    async fn str_(&mut self, v: &str) -> Result<(), scpi::Error> {
        Yield(1).await;
        self.log.push(("STR", vec![Arg::S(v.as_bytes().to_vec())]));
        Ok(())
    }
    #[scpi(cmd = "BLK")]
    async fn blk(&mut self, v: &[u8]) -> Result<(), scpi::Error> {
        Yield(3).await;
        self.log.push(("BLK", vec![Arg::Blk(v.to_vec())]));
        Ok(())
    }
    #[scpi(cmd = "ZERO")]
    fn zero(&mut self) -> Result<(), scpi::Error> {
        self.log.push(("ZERO", vec![]));
        Ok(())
    }
    #[scpi(cmd = "MIX")]
    async fn mix(&mut self, a: u8, b: &str, c: bool, d: f64, e: &[u8], f: i16) -> Result<(), scpi::Error> {
        Yield(1).await;
        self.log.push(("MIX", vec![
            Arg::I(a as i128),
            Arg::S(b.as_bytes().to_vec()),
            Arg::B(c),
            Arg::F64(d.to_bits()),
            Arg::Blk(e.to_vec()),
            Arg::I(f as i128),
        ]));
        Ok(())
    }
    #[scpi(cmd = "TEN")]
    fn ten(
        &mut self, a: i32, b: u8, c: i64, d: bool, e: &str, f: f32, g: u16, h: &[u8], i: i8, j: u64,
    ) -> Result<(), scpi::Error> {
        self.log.push(("TEN", vec![
            Arg::I(a as i128),
            Arg::I(b as i128),
            Arg::I(c as i128),
            Arg::B(d),
            Arg::S(e.as_bytes().to_vec()),
            Arg::F32(f.to_bits()),
            Arg::I(g as i128),
            Arg::Blk(h.to_vec()),
            Arg::I(i as i128),
            Arg::I(j as i128),
        ]));
        Ok(())
    }
    #[scpi(cmd = "ELEVEN")]
    fn eleven(
        &mut self, a: u8, b: u8, c: u8, d: u8, e: u8, f: u8, g: u8, h: u8, i: u8, j: u8, k: u8,
    ) -> Result<(), scpi::Error> {
        self.log.push(("ELEVEN", vec![Arg::I((a + b + c + d + e + f + g + h + i + j + k) as i128)]));
        Ok(())
    }
    #[scpi(cmd = "QSTR?")]
    async fn qstr(&mut self, v: &str, n: u8) -> Result<u8, scpi::Error> {
        self.log.push(("QSTR?", vec![Arg::S(v.as_bytes().to_vec()), Arg::I(n as i128)]));
        Ok(n)
    }
}

// ---------------------------------------------------------------------------------------------
// model

#[derive(Debug, Clone, Copy, PartialEq)]
enum Ty {
    Int { bits: u32, signed: bool },
    F32,
    F64,
    Bool,
    Str,
    Blk,
}

const U8: Ty = Ty::Int { bits: 8, signed: false };
const I8: Ty = Ty::Int { bits: 8, signed: true };
const U16: Ty = Ty::Int { bits: 16, signed: false };
const I16: Ty = Ty::Int { bits: 16, signed: true };
const U32: Ty = Ty::Int { bits: 32, signed: false };
const I32: Ty = Ty::Int { bits: 32, signed: true };
const U64: Ty = Ty::Int { bits: 64, signed: false };
const I64: Ty = Ty::Int { bits: 64, signed: true };

static COMMANDS: &[(&str, &[Ty])] = &[
    ("U8", &[U8]),
    ("I8", &[I8]),
    ("U16", &[U16]),
    ("I16", &[I16]),
    ("U32", &[U32]),
    ("I32", &[I32]),
    ("U64", &[U64]),
    ("I64", &[I64]),
    ("USZ", &[U64]),
    ("ISZ", &[I64]),
    ("F32", &[Ty::F32]),
    ("F64", &[Ty::F64]),
    ("BOOL", &[Ty::Bool]),
    ("STR", &[Ty::Str]),
    ("BLK", &[Ty::Blk]),
    ("ZERO", &[]),
    ("MIX", &[U8, Ty::Str, Ty::Bool, Ty::F64, Ty::Blk, I16]),
    ("TEN", &[I32, U8, I64, Ty::Bool, Ty::Str, Ty::F32, U16, Ty::Blk, I8, U64]),
    ("ELEVEN", &[U8, U8, U8, U8, U8, U8, U8, U8, U8, U8, U8]),
    ("QSTR?", &[Ty::Str, U8]),
];

#[derive(Debug, Clone)]
enum Lit {
    /// sign, magnitude, text
    DecInt { neg: bool, mag: u128, text: String },
    DecReal { text: String },
    Radix { mag: u128, text: String },
    Chars { text: String },
    Str { content: Vec<u8>, text: Vec<u8> },
    Blk { content: Vec<u8>, text: Vec<u8> },
}

impl Lit {
    fn bytes(&self) -> Vec<u8> {
        match self {
            Lit::DecInt { text, .. } | Lit::DecReal { text } | Lit::Radix { text, .. } | Lit::Chars { text } => {
                text.as_bytes().to_vec()
            }
            Lit::Str { text, .. } | Lit::Blk { text, .. } => text.clone(),
        }
    }
}

#[derive(Debug, Clone, PartialEq)]
enum Conv {
    Ok(Arg),
    /// any of these codes is acceptable
    Err(&'static [i16]),
}

fn convert(lit: &Lit, ty: Ty) -> Conv {
    match (lit, ty) {
        (Lit::DecInt { neg, mag, .. }, Ty::Int { bits, signed }) => {
            let v: i128 = if *mag > (1u128 << 100) { return Conv::Err(&[-120]) } else if *neg { -(*mag as i128) } else { *mag as i128 };
            if *neg && !signed { return Conv::Err(&[-120]); } // NOTE: "-0" for unsigned is rejected by the library
            let (lo, hi) = if signed { (-(1i128 << (bits - 1)), (1i128 << (bits - 1)) - 1) } else { (0, (1i128 << bits) - 1) };
            if v >= lo && v <= hi { Conv::Ok(Arg::I(v)) } else { Conv::Err(&[-120]) }
        }
        (Lit::Radix { mag, .. }, Ty::Int { bits, signed }) => {
            let hi = if signed { (1u128 << (bits - 1)) - 1 } else { (1u128 << bits) - 1 };
            if *mag <= hi { Conv::Ok(Arg::I(*mag as i128)) } else { Conv::Err(&[-120]) }
        }
        (Lit::DecReal { .. }, Ty::Int { .. }) => Conv::Err(&[-120]),
        (Lit::DecInt { text, .. }, Ty::F32) | (Lit::DecReal { text }, Ty::F32) => {
            Conv::Ok(Arg::F32(text.parse::<f32>().unwrap().to_bits()))
        }
        (Lit::DecInt { text, .. }, Ty::F64) | (Lit::DecReal { text }, Ty::F64) => {
            Conv::Ok(Arg::F64(text.parse::<f64>().unwrap().to_bits()))
        }
        (Lit::DecInt { text, .. }, Ty::Bool) if text == "1" => Conv::Ok(Arg::B(true)),
        (Lit::DecInt { text, .. }, Ty::Bool) if text == "0" => Conv::Ok(Arg::B(false)),
        (Lit::Chars { text }, Ty::Bool) if text.eq_ignore_ascii_case("ON") => Conv::Ok(Arg::B(true)),
        (Lit::Chars { text }, Ty::Bool) if text.eq_ignore_ascii_case("OFF") => Conv::Ok(Arg::B(false)),
        (Lit::Chars { text }, Ty::Bool) if text.eq_ignore_ascii_case("TRUE") => Conv::Ok(Arg::B(true)),
        (Lit::Chars { text }, Ty::Bool) if text.eq_ignore_ascii_case("FALSE") => Conv::Ok(Arg::B(false)),
        (Lit::DecInt { .. }, Ty::Bool) | (Lit::DecReal { .. }, Ty::Bool) | (Lit::Chars { .. }, Ty::Bool) => Conv::Err(&[-224]),
        (_, Ty::Bool) => Conv::Err(&[-224, -104]),
        (Lit::Str { content, .. }, Ty::Str) => Conv::Ok(Arg::S(content.clone())),
        (Lit::Blk { content, .. }, Ty::Blk) => Conv::Ok(Arg::Blk(content.clone())),
        _ => Conv::Err(&[-104]),
    }
}

struct Rng(u64);
impl Rng {
    fn next(&mut self) -> u64 {
        self.0 ^= self.0 << 13;
        self.0 ^= self.0 >> 7;
        self.0 ^= self.0 << 17;
        self.0
    }
    fn below(&mut self, n: usize) -> usize {
        (self.next() % n as u64) as usize
    }
    fn chance(&mut self, num: usize, den: usize) -> bool {
        self.below(den) < num
    }
    fn pick<'a, T>(&mut self, items: &'a [T]) -> &'a T {
        &items[self.below(items.len())]
    }
}

fn magnitude(rng: &mut Rng) -> u128 {
    let bounds: [u128; 12] = [
        0,
        1,
        1 << 7,
        1 << 8,
        1 << 15,
        1 << 16,
        1 << 31,
        1 << 32,
        1 << 63,
        1 << 64,
        100,
        1 << 70,
    ];
    let base = *rng.pick(&bounds);
    match rng.below(5) {
        0 => base,
        1 => base.saturating_sub(1),
        2 => base + 1,
        3 => base.saturating_sub(rng.below(3) as u128),
        _ => (rng.next() as u128) >> rng.below(64),
    }
}

fn zeros(rng: &mut Rng) -> String {
    if rng.chance(1, 4) { "0".repeat(1 + rng.below(30)) } else { String::new() }
}

fn gen_lit(rng: &mut Rng, want: Option<Ty>) -> Lit {
    // Mostly generate the kind that fits the wanted type.
    let kind = if let (Some(ty), true) = (want, rng.chance(4, 5)) {
        match ty {
            Ty::Int { .. } => *rng.pick(&[0, 0, 2, 2]),
            Ty::F32 | Ty::F64 => *rng.pick(&[0, 1, 1, 1]),
            Ty::Bool => *rng.pick(&[0, 3, 3, 3]),
            Ty::Str => 4,
            Ty::Blk => 5,
        }
    }
    else {
        rng.below(6)
    };
    match kind {
        0 => {
            let mag = if want == Some(Ty::Bool) && rng.chance(2, 3) { rng.below(2) as u128 } else { magnitude(rng) };
            let sign = if want == Some(Ty::Bool) && rng.chance(2, 3) { "" } else { *rng.pick(&["", "", "+", "-"]) };
            let z = if want == Some(Ty::Bool) { String::new() } else { zeros(rng) };
            Lit::DecInt { neg: sign == "-", mag, text: format!("{sign}{z}{mag}") }
        }
        1 => {
            let sign = *rng.pick(&["", "", "+", "-"]);
            let int = if rng.chance(1, 5) { String::new() } else { format!("{}{}", zeros(rng), rng.next() >> rng.below(64)) };
            let frac = if int.is_empty() || rng.chance(3, 4) {
                let digits = if int.is_empty() || rng.chance(5, 6) { format!("{}", rng.next() >> rng.below(64)) } else { String::new() };
                format!(".{digits}")
            }
            else {
                String::new()
            };
            let exp = if frac.is_empty() || rng.chance(1, 2) {
                let e = *rng.pick(&["E", "e"]);
                let s = *rng.pick(&["", "+", "-"]);
                let v = *rng.pick(&[0usize, 1, 2, 5, 10, 20, 37, 38, 39, 45, 46, 100, 307, 308, 309, 323, 324, 325, 400, 5000]);
                format!("{e}{s}{}{v}", if rng.chance(1, 6) { "00" } else { "" })
            }
            else {
                String::new()
            };
            Lit::DecReal { text: format!("{sign}{int}{frac}{exp}") }
        }
        2 => {
            let mag = magnitude(rng);
            let z = zeros(rng);
            let text = match rng.below(6) {
                0 => format!("#H{z}{mag:X}"),
                1 => format!("#h{z}{mag:x}"),
                2 => format!("#Q{z}{mag:o}"),
                3 => format!("#q{z}{mag:o}"),
                4 => format!("#B{z}{mag:b}"),
                _ => format!("#b{z}{mag:b}"),
            };
            Lit::Radix { mag, text }
        }
        3 => {
            let text = *rng.pick(&[
                "ON", "OFF", "on", "off", "On", "oFF", "TRUE", "FALSE", "true", "False", "MAX", "MIN", "DEF", "X1", "A_B", "O",
                "ONN", "OF", "E5", "INF", "NAN", "H1",
            ]);
            Lit::Chars { text: text.to_string() }
        }
        4 => {
            let quote = *rng.pick(&[b'"', b'\'']);
            let len = rng.below(12);
            let alphabet = b"abcXYZ019 ,;:#\n\r\t'\"*?!\\#12#H#Q";
            let content: Vec<u8> =
                (0..len).map(|_| *rng.pick(alphabet)).filter(|c| *c != quote).collect();
            let mut text = vec![quote];
            text.extend_from_slice(&content);
            text.push(quote);
            Lit::Str { content, text }
        }
        _ => {
            let len = *rng.pick(&[0usize, 0, 1, 2, 3, 5, 9, 10, 11, 17]);
            let alphabet = b"ab\n\n;,\"'#19\x00\xff\x80 ";
            let content: Vec<u8> = (0..len).map(|_| *rng.pick(alphabet)).collect();
            let lentext = format!("{len}");
            let pad = if rng.chance(1, 3) { rng.below(10 - lentext.len()) } else { 0 };
            let mut text = format!("#{}{}{}", lentext.len() + pad, "0".repeat(pad), lentext).into_bytes();
            text.extend_from_slice(&content);
            Lit::Blk { content, text }
        }
    }
}

fn ws(rng: &mut Rng, at_least_one: bool) -> Vec<u8> {
    let n = if at_least_one { 1 + rng.below(2) } else if rng.chance(1, 3) { rng.below(3) } else { 0 };
    (0..n).map(|_| *rng.pick(b"  \t\r\x01")).collect()
}

#[derive(Debug, Clone, PartialEq)]
enum Outcome {
    Call(&'static str, Vec<Arg>),
    Error(&'static [i16]),
}

const ANY: &[i16] = &[];

struct Unit {
    text: Vec<u8>,
    outcome: Outcome,
    /// parse-level error: the rest of the message is dropped
    fatal: bool,
    desc: String,
}

fn gen_unit(rng: &mut Rng) -> Unit {
    let (name, tys) = *rng.pick(COMMANDS);
    let count = if rng.chance(1, 6) { *rng.pick(&[0usize, 1, 2, 9, 10, 11, 12]) } else { tys.len() };
    let lits: Vec<Lit> = (0..count).map(|i| gen_lit(rng, tys.get(i).copied())).collect();

    let mut text = ws(rng, false);
    let header: String = name
        .chars()
        .map(|c| if rng.chance(1, 3) { c.to_ascii_lowercase() } else { c })
        .collect();
    if rng.chance(1, 4) {
        text.push(b':');
    }
    text.extend_from_slice(header.as_bytes());
    if !lits.is_empty() {
        text.extend(ws(rng, true));
    }
    for (i, lit) in lits.iter().enumerate() {
        if i > 0 {
            text.extend(ws(rng, false));
            text.push(b',');
            text.extend(ws(rng, false));
        }
        text.extend(lit.bytes());
    }
    text.extend(ws(rng, false));

    let mut fatal = false;
    let outcome = if count > 10 {
        fatal = true;
        Outcome::Error(ANY)
    }
    else if count != tys.len() {
        Outcome::Error(ANY)
    }
    else {
        let mut args = Vec::new();
        let mut error = None;
        for (lit, ty) in lits.iter().zip(tys.iter()) {
            match convert(lit, *ty) {
                Conv::Ok(arg) => args.push(arg),
                Conv::Err(codes) => {
                    error = Some(codes);
                    break;
                }
            }
        }
        match error {
            Some(codes) => Outcome::Error(codes),
            None => Outcome::Call(name, args),
        }
    };
    Unit { text, outcome, fatal, desc: format!("{name} {lits:?}") }
}

struct Message {
    bytes: Vec<u8>,
    expected: Vec<Outcome>,
    desc: String,
}

fn gen_message(rng: &mut Rng) -> Message {
    let n = 1 + if rng.chance(1, 3) { rng.below(3) } else { 0 };
    let mut bytes = Vec::new();
    let mut expected = Vec::new();
    let mut desc = String::new();
    let mut dropped = false;
    for i in 0..n {
        let unit = gen_unit(rng);
        if i > 0 {
            bytes.push(b';');
        }
        bytes.extend_from_slice(&unit.text);
        desc.push_str(&unit.desc);
        desc.push_str(" ; ");
        if !dropped {
            expected.push(unit.outcome);
        }
        if unit.fatal {
            dropped = true;
        }
    }
    bytes.push(b'\n');
    Message { bytes, expected, desc }
}

fn check(dev: &Dev, expected: &[Outcome], context: &str) -> Result<(), String> {
    let mut calls = dev.log.iter();
    let mut errors = dev.errors.iter();
    // Calls and errors are logged separately: compare the subsequences.
    for outcome in expected {
        match outcome {
            Outcome::Call(name, args) => match calls.next() {
                Some((n, a)) if n == name && a == args => (),
                other => return Err(format!("{context}: expected call {name} {args:?}, got {other:?}; errors {:?}", dev.errors)),
            },
            Outcome::Error(codes) => match errors.next() {
                Some(e) if codes.is_empty() || codes.contains(&e.number()) => (),
                other => return Err(format!("{context}: expected error {codes:?}, got {other:?}; log {:?}", dev.log)),
            },
        }
    }
    if let Some(extra) = calls.next() {
        return Err(format!("{context}: unexpected call {extra:?}"));
    }
    if let Some(extra) = errors.next() {
        return Err(format!("{context}: unexpected error {extra:?}; all {:?}", dev.errors));
    }
    Ok(())
}

struct ChunkAdapter {
    data: Vec<u8>,
    pos: usize,
    rng: Rng,
    out: Vec<u8>,
}

impl Adapter for ChunkAdapter {
    type Error = ();

    async fn read(&mut self, dst: &mut [u8]) -> Result<usize, ()> {
        if self.pos >= self.data.len() {
            return Err(());
        }
        if self.rng.chance(1, 3) {
            Yield(1).await;
        }
        let max = dst.len().min(self.data.len() - self.pos);
        let n = match self.rng.below(4) {
            0 => 1,
            1 => max,
            _ => 1 + self.rng.below(max),
        };
        dst[..n].copy_from_slice(&self.data[self.pos..self.pos + n]);
        self.pos += n;
        Ok(n)
    }

    async fn write(&mut self, src: &[u8]) -> Result<(), ()> {
        self.out.extend_from_slice(src);
        Ok(())
    }

    async fn flush(&mut self) -> Result<(), ()> {
        Ok(())
    }
}

#[test]
fn differential_run() {
    let mut rng = Rng(0x9E3779B97F4A7C15);
    let mut failures = 0;
    for iteration in 0..300_000 {
        let message = gen_message(&mut rng);
        let mut dev = Dev::default();
        let mut out: Vec<u8> = Vec::new();
        let rest = block_on(dev.run(&message.bytes, &mut out));
        let mut result = check(&dev, &message.expected, "run");
        if result.is_ok() && !rest.is_empty() {
            result = Err(format!("rest {rest:?}"));
        }
        if let Err(error) = result {
            failures += 1;
            if failures < 40 {
                println!("#{iteration} {:?}\n   {}\n   {error}", String::from_utf8_lossy(&message.bytes), message.desc);
            }
        }
    }
    assert_eq!(failures, 0);
}

#[test]
fn differential_process() {
    let mut rng = Rng(0x1234567887654321);
    let mut failures = 0;
    for iteration in 0..60_000 {
        let count = 1 + rng.below(4);
        let mut data = Vec::new();
        let mut expected = Vec::new();
        let mut desc = String::new();
        for _ in 0..count {
            let message = gen_message(&mut rng);
            if message.bytes.len() >= 250 {
                continue;
            }
            data.extend_from_slice(&message.bytes);
            expected.extend(message.expected);
            desc.push_str(&message.desc);
        }
        let mut dev = Dev::default();
        let mut adapter = ChunkAdapter { data: data.clone(), pos: 0, rng: Rng(rng.next() | 1), out: Vec::new() };
        let _ = block_on(dev.process::<256, _>(&mut adapter));
        if let Err(error) = check(&dev, &expected, "process") {
            failures += 1;
            if failures < 40 {
                println!("#{iteration} {:?}\n   {desc}\n   {error}", String::from_utf8_lossy(&data));
            }
        }
    }
    assert_eq!(failures, 0);
}

fn gen_sized_message(rng: &mut Rng, n: usize) -> Message {
    // total length target
    let target = match rng.below(6) {
        0 => n,
        1 => n - 1,
        2 => n + 1,
        3 => n + 2 + rng.below(3 * n),
        _ => 8 + rng.below(n - 8),
    };
    let alphabet = b"ab\n\n;,\"'#19\x00\xff ";
    if rng.chance(1, 2) {
        // BLK #2LL<data>\n  => 4 + 4 + L + 1
        let l = target.saturating_sub(9).min(99);
        let content: Vec<u8> = (0..l).map(|_| *rng.pick(alphabet)).collect();
        let mut bytes = format!("BLK #2{l:02}").into_bytes();
        bytes.extend_from_slice(&content);
        bytes.push(b'\n');
        Message { desc: format!("BLK len {l} total {}", bytes.len()), expected: vec![Outcome::Call("BLK", vec![Arg::Blk(content)])], bytes }
    }
    else {
        // STR "<L>"\n => 4 + 2 + L + 1
        let l = target.saturating_sub(7);
        let content: Vec<u8> = (0..l).map(|_| *rng.pick(b"ab\n\n;,'#19 ")).collect();
        let mut bytes = b"STR \"".to_vec();
        bytes.extend_from_slice(&content);
        bytes.extend_from_slice(b"\"\n");
        Message { desc: format!("STR len {l} total {}", bytes.len()), expected: vec![Outcome::Call("STR", vec![Arg::S(content)])], bytes }
    }
}

fn sized_process<const N: usize>(seed: u64, iterations: usize) {
    let mut rng = Rng(seed);
    let mut failures = 0;
    for iteration in 0..iterations {
        let count = 1 + rng.below(5);
        let mut data = Vec::new();
        let mut expected = Vec::new();
        let mut desc = String::new();
        for _ in 0..count {
            let message = if rng.chance(2, 3) { gen_sized_message(&mut rng, N) } else { gen_message(&mut rng) };
            data.extend_from_slice(&message.bytes);
            if message.bytes.len() <= N {
                expected.extend(message.expected);
            }
            desc.push_str(&message.desc);
            desc.push_str(&format!(" (len {}) | ", message.bytes.len()));
        }
        let mut dev = Dev::default();
        let mut adapter = ChunkAdapter { data: data.clone(), pos: 0, rng: Rng(rng.next() | 1), out: Vec::new() };
        let _ = block_on(dev.process::<N, _>(&mut adapter));
        if let Err(error) = check(&dev, &expected, "process") {
            failures += 1;
            if failures < 15 {
                println!("#{iteration} N={N} {:?}\n   {desc}\n   {error}", String::from_utf8_lossy(&data));
            }
        }
    }
    assert_eq!(failures, 0);
}

#[test]
fn sized_process_32() {
    sized_process::<32>(0xDEADBEEFCAFE, 60_000);
}

#[test]
fn sized_process_64() {
    sized_process::<64>(0xFEEDFACE1234, 60_000);
}

fn run_one(input: &[u8]) -> (Dev, Vec<u8>) {
    let mut dev = Dev::default();
    let mut out: Vec<u8> = Vec::new();
    let rest = block_on(dev.run(input, &mut out)).to_vec();
    (dev, rest)
}

fn process_one(input: &[u8], seed: u64) -> Dev {
    let mut dev = Dev::default();
    let mut adapter = ChunkAdapter { data: input.to_vec(), pos: 0, rng: Rng(seed | 1), out: Vec::new() };
    let _ = block_on(dev.process::<128, _>(&mut adapter));
    dev
}

#[test]
fn battery() {
    let cases: &[&[u8]] = &[
        b"U8 1E\n", b"U8 1.2.3\n", b"U8 #HG\n", b"U8 #B2\n", b"U8 #Q8\n", b"U8 --1\n", b"U8 1 2\n", b"U8 #B102\n",
        b"U8 #HFFG\n", b"U8 ,1\n", b"U8 1,\n", b"MIX 1,,3\n", b"U8 +\n", b"U8 -\n", b"U8 .\n", b"F64 1E\n", b"F64 1E+\n",
        b"F64 .E5\n", b"F64 1 E5\n", b"F64 1.5 V\n", b"F64 1.5V\n", b"STR \"a\"\"b\"\n", b"STR 'it''s'\n", b"STR \"\xff\"\n",
        b"BLK #0abc\n", b"BLK #\n", b"BLK #1\n", b"BLK #1x\n", b"BLK #2 1a\n", b"BLK #2+1a\n", b"BLK #2-1a\n", b"BLK #21xa\n",
        b"U8 -0\n", b"U16 -0\n", b"I8 -0\n", b"F32 1E39\n", b"F32 -1E39\n", b"F64 1E309\n", b"F64 1E-400\n", b"F32 1E-60\n",
        b"F64 -0\n", b"F64 -0.0\n", b"F32 3.4028235E38\n", b"F32 3.4028236E38\n", b"F32 340282356779733661637539395458142568448\n",
        b"BOOL 1\n", b"BOOL 01\n", b"BOOL +1\n", b"BOOL 1.0\n", b"BOOL 2\n", b"BOOL -1\n", b"BOOL #H1\n", b"BOOL \"ON\"\n", b"BOOL #11\n",
        b"U8\"1\"\n", b"STR\"a\"\n", b"BLK#11\n", b"U8 1;\n", b"U8 1;;U8 2\n", b"U8 (1)\n", b"U8 (@1)\n",
        b"ZERO 1\n", b"ZERO ON\n", b"ZERO \n", b"ZERO\n", b"U8\n", b"U8 \n",
        b"TEN 1,2,3,1,'e',1.5,7,#11,-9,10\n", b"TEN 1,2,3,1,'e',1.5,7,#11,-9,10,11\n",
        b"ELEVEN 1,1,1,1,1,1,1,1,1,1,1\n", b"ELEVEN 1,1,1,1,1,1,1,1,1,1\n",
        b"ZERO 1,2,3,4,5,6,7,8,9,10,#11\n\n", b"ZERO 1,2,3,4,5,6,7,8,9,10,11,#11\n\n", b"ZERO 1,2,3,4,5,6,7,8,9,10,11,'\n'\n",
        b"U8 1,2,3,4,5,6,7,8,9,10,11;U8 7\n", b"U8 1,2,3,4,5,6,7,8,9,10,11,;U8 7\n",
        b"U8 255\n", b"U8 256\n", b"U8 0255\n", b"I8 -128\n", b"I8 -129\n", b"I8 #H80\n", b"I8 #HFF\n", b"I8 #H7F\n",
        b"U64 18446744073709551615\n", b"U64 18446744073709551616\n", b"I64 -9223372036854775808\n", b"I64 #H8000000000000000\n",
        b"U8 1.0\n", b"U8 1E0\n", b"U8 1.\n", b"U8 .0\n", b"U8 2.5\n",
        b"STR abc\n", b"STR 1\n", b"STR #13abc\n", b"BLK 'abc'\n", b"BLK #H12\n",
        b"QSTR? 'x',5\n", b"QSTR? 'x'\n", b"QSTR? 'x',5,6\n", b"QSTR 'x',5\n",
        b"U8\t5\n", b"U8\x005\n", b"U8 5\r\n", b"U8 5 \r \n", b"u8 5\n", b":U8 5\n", b"U8 : 5\n",
        b"U8 5 ;I8 -5 ; STR '' ;BLK #10;BLK #200;BLK #3000\n",
    ];
    for case in cases {
        let (dev, rest) = run_one(case);
        let pdev = process_one(case, 12345);
        let same = dev.log == pdev.log && dev.errors == pdev.errors;
        println!(
            "{:<60} log {:?} errors {:?} rest {:?}{}",
            format!("{:?}", String::from_utf8_lossy(case)),
            dev.log,
            dev.errors,
            String::from_utf8_lossy(&rest),
            if same { String::new() } else { format!("   PROCESS DIFFERS: log {:?} errors {:?}", pdev.log, pdev.errors) }
        );
    }
}

// ---------------------------------------------------------------------------------------------
// Independent reference interpreter for whole inputs (possibly ill-formed), used with mutation fuzzing.

fn is_ws(b: u8) -> bool {
    b <= 9 || (11..=32).contains(&b)
}

enum RefUnit {
    Call(&'static str, Vec<Lit>, u8), // terminator
    Empty,
    Error,
    Incomplete,
}

struct Cur<'a> {
    d: &'a [u8],
    p: usize,
}

impl<'a> Cur<'a> {
    fn peek(&self) -> Option<u8> {
        self.d.get(self.p).copied()
    }
    fn skip_ws(&mut self) -> usize {
        let s = self.p;
        while self.peek().map_or(false, is_ws) {
            self.p += 1;
        }
        self.p - s
    }
    fn digits(&mut self) -> usize {
        let s = self.p;
        while self.peek().map_or(false, |b| b.is_ascii_digit()) {
            self.p += 1;
        }
        self.p - s
    }
}

enum RefArg {
    Lit(Lit),
    NoMatch,
    Incomplete,
}

fn ref_arg(c: &mut Cur) -> RefArg {
    let start = c.p;
    let Some(b) = c.peek() else { return RefArg::Incomplete };
    if b.is_ascii_alphabetic() {
        while c.peek().map_or(false, |b| b.is_ascii_alphanumeric() || b == b'_') {
            c.p += 1;
        }
        return RefArg::Lit(Lit::Chars { text: String::from_utf8(c.d[start..c.p].to_vec()).unwrap() });
    }
    if b == b'+' || b == b'-' || b == b'.' || b.is_ascii_digit() {
        let mut neg = false;
        if b == b'+' || b == b'-' {
            neg = b == b'-';
            c.p += 1;
        }
        let int_start = c.p;
        let n1 = c.digits();
        let int_end = c.p;
        let mut real = false;
        if c.peek() == Some(b'.') {
            c.p += 1;
            real = true;
            let n2 = c.digits();
            if n1 == 0 && n2 == 0 {
                c.p = start;
                return if c.d.len() == int_end + 1 { RefArg::Incomplete } else { RefArg::NoMatch };
            }
        }
        else if n1 == 0 {
            c.p = start;
            return if c.d.len() == int_end { RefArg::Incomplete } else { RefArg::NoMatch };
        }
        // exponent
        if matches!(c.peek(), Some(b'E') | Some(b'e')) {
            let save = c.p;
            c.p += 1;
            if matches!(c.peek(), Some(b'+') | Some(b'-')) {
                c.p += 1;
            }
            if c.digits() == 0 {
                c.p = save;
            }
            else {
                real = true;
            }
        }
        let text = String::from_utf8(c.d[start..c.p].to_vec()).unwrap();
        if real {
            return RefArg::Lit(Lit::DecReal { text });
        }
        let digits = std::str::from_utf8(&c.d[int_start..int_end]).unwrap().trim_start_matches('0');
        let mag = if digits.len() > 30 { u128::MAX } else if digits.is_empty() { 0 } else { digits.parse::<u128>().unwrap() };
        return RefArg::Lit(Lit::DecInt { neg, mag, text });
    }
    if b == b'\'' || b == b'"' {
        c.p += 1;
        let s = c.p;
        while let Some(x) = c.peek() {
            if x == b {
                let content = c.d[s..c.p].to_vec();
                c.p += 1;
                if std::str::from_utf8(&content).is_err() {
                    c.p = start;
                    return RefArg::NoMatch;
                }
                return RefArg::Lit(Lit::Str { content, text: c.d[start..c.p].to_vec() });
            }
            c.p += 1;
        }
        return RefArg::Incomplete;
    }
    if b == b'#' {
        c.p += 1;
        let Some(k) = c.peek() else { return RefArg::Incomplete };
        let radix = match k {
            b'H' | b'h' => 16,
            b'Q' | b'q' => 8,
            b'B' | b'b' => 2,
            _ => 0,
        };
        if radix != 0 {
            c.p += 1;
            let s = c.p;
            while c.peek().map_or(false, |x| (x as char).to_digit(radix).is_some()) {
                c.p += 1;
            }
            if c.p == s {
                let eof = c.peek().is_none();
                c.p = start;
                return if eof { RefArg::Incomplete } else { RefArg::NoMatch };
            }
            let digits = std::str::from_utf8(&c.d[s..c.p]).unwrap().trim_start_matches('0');
            let mag = if digits.len() > 120 / (radix.trailing_zeros() as usize) { u128::MAX } else if digits.is_empty() { 0 } else { u128::from_str_radix(digits, radix).unwrap() };
            return RefArg::Lit(Lit::Radix { mag, text: String::from_utf8(c.d[start..c.p].to_vec()).unwrap() });
        }
        if (b'1'..=b'9').contains(&k) {
            c.p += 1;
            let n = (k - b'0') as usize;
            let mut len = 0usize;
            for _ in 0..n {
                match c.peek() {
                    Some(x) if x.is_ascii_digit() => {
                        len = len * 10 + (x - b'0') as usize;
                        c.p += 1;
                    }
                    Some(_) => {
                        c.p = start;
                        return RefArg::NoMatch;
                    }
                    None => return RefArg::Incomplete,
                }
            }
            if c.d.len() - c.p < len {
                return RefArg::Incomplete;
            }
            let content = c.d[c.p..c.p + len].to_vec();
            c.p += len;
            return RefArg::Lit(Lit::Blk { content, text: c.d[start..c.p].to_vec() });
        }
        c.p = start;
        return RefArg::NoMatch;
    }
    RefArg::NoMatch
}

/// Parses one unit at c.p. On Call/Empty, c.p is behind the terminator.
fn ref_unit(c: &mut Cur) -> RefUnit {
    c.skip_ws();
    match c.peek() {
        None => return RefUnit::Incomplete,
        Some(b'\n') => {
            c.p += 1;
            return RefUnit::Empty;
        }
        _ => (),
    }
    if c.peek() == Some(b':') {
        c.p += 1;
        c.skip_ws();
    }
    let s = c.p;
    let star = c.peek() == Some(b'*');
    if star {
        return RefUnit::Error;
    }
    match c.peek() {
        None => return RefUnit::Incomplete,
        Some(b) if b.is_ascii_alphabetic() => (),
        _ => return RefUnit::Error,
    }
    while c.peek().map_or(false, |b| b.is_ascii_alphanumeric() || b == b'_') {
        c.p += 1;
    }
    let name = std::str::from_utf8(&c.d[s..c.p]).unwrap().to_string();
    // a further header level?
    {
        let save = c.p;
        c.skip_ws();
        if c.peek() == Some(b':') {
            return RefUnit::Error;
        }
        c.p = save;
    }
    let mut query = false;
    if c.peek() == Some(b'?') {
        query = true;
        c.p += 1;
    }
    let full = if query { format!("{name}?") } else { name.clone() };
    // The header is looked up before anything else: an unknown node is an error at once.
    let node_exists = COMMANDS.iter().any(|(n, _)| n.trim_end_matches('?').eq_ignore_ascii_case(&name));
    if !node_exists {
        return RefUnit::Error;
    }
    let mut lits = Vec::new();
    if c.peek().is_none() {
        return RefUnit::Incomplete;
    }
    if c.skip_ws() > 0 {
        match ref_arg(c) {
            RefArg::Incomplete => return RefUnit::Incomplete,
            RefArg::NoMatch => (),
            RefArg::Lit(lit) => {
                lits.push(lit);
                loop {
                    let save = c.p;
                    c.skip_ws();
                    if c.peek() != Some(b',') {
                        c.p = save;
                        break;
                    }
                    c.p += 1;
                    c.skip_ws();
                    match ref_arg(c) {
                        RefArg::Incomplete => return RefUnit::Incomplete,
                        RefArg::NoMatch => return RefUnit::Error,
                        RefArg::Lit(lit) => {
                            if lits.len() == 10 {
                                return RefUnit::Error;
                            }
                            lits.push(lit)
                        }
                    }
                }
            }
        }
    }
    c.skip_ws();
    let term = match c.peek() {
        None => return RefUnit::Incomplete,
        Some(t @ (b'\n' | b';')) => t,
        Some(_) => return RefUnit::Error,
    };
    c.p += 1;
    match COMMANDS.iter().find(|(n, _)| n.eq_ignore_ascii_case(&full)) {
        Some((n, _)) => RefUnit::Call(n, lits, term),
        // node exists but not this form: execution error, message continues
        None => RefUnit::Call("", lits, term),
    }
}

/// The library's resynchronisation rule (message framing is not the subject here, so it is copied).
fn ref_skip(d: &[u8]) -> Option<usize> {
    #[derive(Clone, Copy)]
    enum S {
        Plain,
        Quoted(u8),
        Hash,
        Length(u8, usize),
        Block(usize),
    }
    let mut s = S::Plain;
    for (i, &b) in d.iter().enumerate() {
        loop {
            match s {
                S::Plain => {
                    match b {
                        b'\n' => return Some(i + 1),
                        b'\'' | b'"' => s = S::Quoted(b),
                        b'#' => s = S::Hash,
                        _ => (),
                    }
                    break;
                }
                S::Quoted(q) => {
                    if b == q {
                        s = S::Plain;
                    }
                    break;
                }
                S::Hash => {
                    if (b'1'..=b'9').contains(&b) {
                        s = S::Length(b - b'0', 0);
                        break;
                    }
                    s = S::Plain;
                }
                S::Length(n, len) => {
                    if b.is_ascii_digit() {
                        let len = len.saturating_mul(10).saturating_add((b - b'0') as usize);
                        s = match (n, len) {
                            (1, 0) => S::Plain,
                            (1, _) => S::Block(len),
                            _ => S::Length(n - 1, len),
                        };
                        break;
                    }
                    s = S::Plain;
                }
                S::Block(len) => {
                    s = if len > 1 { S::Block(len - 1) } else { S::Plain };
                    break;
                }
            }
        }
    }
    None
}

thread_local! { static CLEAN: std::cell::Cell<bool> = std::cell::Cell::new(true); }
fn reference(d: &[u8]) -> Vec<Outcome> {
    CLEAN.with(|c| c.set(true));
    let mut out = Vec::new();
    let mut c = Cur { d, p: 0 };
    while c.p < d.len() {
        let unit_start = c.p;
        match ref_unit(&mut c) {
            RefUnit::Incomplete => { CLEAN.with(|c| c.set(false)); break }
            RefUnit::Empty => (),
            RefUnit::Error => {
                out.push(Outcome::Error(ANY));
                match ref_skip(&d[unit_start..]) {
                    Some(n) => c.p = unit_start + n,
                    None => { CLEAN.with(|c| c.set(false)); break }
                }
            }
            RefUnit::Call(name, lits, _term) => {
                let Some((_, tys)) = COMMANDS.iter().find(|(n, _)| *n == name) else {
                    out.push(Outcome::Error(&[-113]));
                    continue;
                };
                if lits.len() != tys.len() {
                    out.push(Outcome::Error(&[-115]));
                    continue;
                }
                let mut args = Vec::new();
                let mut error = None;
                for (lit, ty) in lits.iter().zip(tys.iter()) {
                    match convert(lit, *ty) {
                        Conv::Ok(arg) => args.push(arg),
                        Conv::Err(codes) => {
                            error = Some(codes);
                            break;
                        }
                    }
                }
                match error {
                    Some(codes) => out.push(Outcome::Error(codes)),
                    None => out.push(Outcome::Call(name, args)),
                }
            }
        }
    }
    out
}

fn check_ordered(dev_events: &[Outcome], expected: &[Outcome]) -> Result<(), String> {
    if dev_events.len() != expected.len() {
        return Err(format!("expected {expected:?}\n   got {dev_events:?}"));
    }
    for (got, want) in dev_events.iter().zip(expected) {
        let ok = match (got, want) {
            (Outcome::Call(a, b), Outcome::Call(c, d)) => a == c && b == d,
            (Outcome::Error(got), Outcome::Error(want)) => want.is_empty() || want.contains(&got[0]),
            _ => false,
        };
        if !ok {
            return Err(format!("expected {expected:?}\n   got {dev_events:?}"));
        }
    }
    Ok(())
}

#[test]
fn mutation_fuzz() {
    let mut rng = Rng(0xABCDEF0123456789);
    let mut failures = 0;
    let alphabet = b";:,#'\"?* \n\t+-.E0e19aHQBhqb_\r\x00\xff";
    for iteration in 0..400_000 {
        let mut bytes = gen_message(&mut rng).bytes;
        if rng.chance(1, 3) {
            bytes.extend(gen_message(&mut rng).bytes);
        }
        for _ in 0..1 + rng.below(3) {
            if bytes.is_empty() {
                break;
            }
            let at = rng.below(bytes.len());
            match rng.below(5) {
                0 => {
                    bytes.remove(at);
                }
                1 => bytes.insert(at, *rng.pick(alphabet)),
                2 => bytes[at] = *rng.pick(alphabet),
                3 => {
                    let end = (at + 1 + rng.below(6)).min(bytes.len());
                    let span = bytes[at..end].to_vec();
                    for (i, b) in span.into_iter().enumerate() {
                        bytes.insert(at + i, b);
                    }
                }
                _ => {
                    let other = rng.below(bytes.len());
                    bytes.swap(at, other);
                }
            }
        }
        if bytes.last() != Some(&b'\n') {
            bytes.push(b'\n');
        }
        let expected = reference(&bytes);
        for o in &expected { match o { Outcome::Call(..) => STATS.0.fetch_add(1, std::sync::atomic::Ordering::Relaxed), Outcome::Error(c) if c.is_empty() => STATS.1.fetch_add(1, std::sync::atomic::Ordering::Relaxed), _ => STATS.2.fetch_add(1, std::sync::atomic::Ordering::Relaxed) }; }

        if CLEAN.with(|c| c.get()) && iteration % 4 == 0 {
            // every message must fit
            let mut longest = 0; let mut cur = 0;
            for b in &bytes { cur += 1; if *b == b'\n' { longest = longest.max(cur); } }
            let _ = longest;
            if bytes.len() <= 200 {
                PROC.fetch_add(1, std::sync::atomic::Ordering::Relaxed);
                let pdev = process_one_n(&bytes, rng.next());
                if let Err(error) = check(&pdev, &expected, "process") {
                    failures += 1;
                    if failures < 25 {
                        println!("#{iteration} {:?}\n   {error}\n   expected {expected:?}", String::from_utf8_lossy(&bytes));
                    }
                }
            }
        }
        // run
        let mut dev = Dev::default();
        let mut out: Vec<u8> = Vec::new();
        let _ = block_on(dev.run(&bytes, &mut out));
        let _ = dev;
        // Merge calls and errors: order between them is not recorded, so compare the two subsequences.
        if let Err(error) = check(&dev, &expected, "run") {
            failures += 1;
            if failures < 25 {
                println!("#{iteration} {:?}\n   {error}\n   expected {expected:?}", String::from_utf8_lossy(&bytes));
            }
        }
    }
    println!("process compared: {}", PROC.load(std::sync::atomic::Ordering::Relaxed));
    println!("stats calls/syntax errors/typed errors: {:?}", STATS);
    assert_eq!(failures, 0);
}
static STATS: (std::sync::atomic::AtomicUsize, std::sync::atomic::AtomicUsize, std::sync::atomic::AtomicUsize) = (std::sync::atomic::AtomicUsize::new(0), std::sync::atomic::AtomicUsize::new(0), std::sync::atomic::AtomicUsize::new(0));
#[test]
fn zz_stats() { std::thread::sleep(std::time::Duration::from_secs(0)); }

static PROC: std::sync::atomic::AtomicUsize = std::sync::atomic::AtomicUsize::new(0);
fn process_one_n(input: &[u8], seed: u64) -> Dev {
    let mut dev = Dev::default();
    let mut adapter = ChunkAdapter { data: input.to_vec(), pos: 0, rng: Rng(seed | 1), out: Vec::new() };
    let _ = block_on(dev.process::<200, _>(&mut adapter));
    dev
}
