// Exploratory search for C13: count heap allocations (per thread) made while the
// library parses, dispatches and formats into fixed-capacity buffers.
use std::alloc::{GlobalAlloc, Layout, System};
use std::cell::Cell;
use std::future::Future;
use std::pin::pin;
use std::task::{Context, Poll, Waker};

use microscpi::{
    self as scpi, Adapter, Arbitrary, Characters, ErrorCommands, ErrorQueue, Interface,
    StandardCommands, StaticErrorQueue,
};

thread_local! {
    static ACTIVE: Cell<bool> = const { Cell::new(false) };
    static COUNT: Cell<usize> = const { Cell::new(0) };
}

struct Counting;

unsafe impl GlobalAlloc for Counting {
    unsafe fn alloc(&self, layout: Layout) -> *mut u8 {
        if ACTIVE.with(|a| a.get()) {
            COUNT.with(|c| c.set(c.get() + 1));
        }
        System.alloc(layout)
    }
    unsafe fn dealloc(&self, ptr: *mut u8, layout: Layout) {
        System.dealloc(ptr, layout)
    }
    unsafe fn realloc(&self, ptr: *mut u8, layout: Layout, new_size: usize) -> *mut u8 {
        if ACTIVE.with(|a| a.get()) {
            COUNT.with(|c| c.set(c.get() + 1));
        }
        System.realloc(ptr, layout, new_size)
    }
}

#[global_allocator]
static GLOBAL: Counting = Counting;

fn counted<T>(f: impl FnOnce() -> T) -> (T, usize) {
    COUNT.with(|c| c.set(0));
    ACTIVE.with(|a| a.set(true));
    let result = f();
    ACTIVE.with(|a| a.set(false));
    (result, COUNT.with(|c| c.get()))
}

fn block_on<F: Future>(f: F) -> F::Output {
    let mut cx = Context::from_waker(Waker::noop());
    let mut f = pin!(f);
    loop {
        if let Poll::Ready(v) = f.as_mut().poll(&mut cx) {
            return v;
        }
    }
}

pub struct Dev {
    errors: StaticErrorQueue<4>,
    v: u64,
}

impl ErrorCommands for Dev {
    fn error_queue(&mut self) -> &mut impl ErrorQueue {
        &mut self.errors
    }
}
impl StandardCommands for Dev {}

#[scpi::interface(scpi::StandardCommands, scpi::ErrorCommands)]
impl Dev {
    #[scpi(cmd = "*IDN?")]
    async fn idn(&mut self) -> Result<&str, scpi::Error> {
        Ok("a\"b,MICROSCPI,\"\"")
    }
    #[scpi(cmd = "*RST")]
    async fn rst(&mut self) -> Result<(), scpi::Error> {
        self.v = 0;
        Ok(())
    }
    #[scpi(cmd = "[SYSTem]:VALue?")]
    async fn value(&mut self) -> Result<u64, scpi::Error> {
        Ok(self.v)
    }
    #[scpi(cmd = "[SYSTem]:VALue")]
    fn set_value(&mut self, v: u64) -> Result<(), scpi::Error> {
        self.v = v;
        Ok(())
    }
    #[scpi(cmd = "F?")]
    async fn f(&mut self, a: f64, b: f32) -> Result<(f64, f32), scpi::Error> {
        Ok((a, b))
    }
    #[scpi(cmd = "FF?")]
    async fn ff(&mut self) -> Result<(f64, f64, f32, f32), scpi::Error> {
        Ok((f64::MAX, f64::MIN_POSITIVE, f32::NAN, f32::NEG_INFINITY))
    }
    #[scpi(cmd = "B?")]
    async fn b(&mut self, a: bool) -> Result<bool, scpi::Error> {
        Ok(a)
    }
    #[scpi(cmd = "S?")]
    async fn s<'a>(&mut self, a: &'a str) -> Result<heapless::String<8>, scpi::Error> {
        let mut s = heapless::String::new();
        let _ = s.push_str(a.get(..a.len().min(4)).unwrap_or(""));
        Ok(s)
    }
    #[scpi(cmd = "ECHO?")]
    async fn echo<'a>(&mut self, a: &'a str) -> Result<&'a str, scpi::Error> {
        Ok(a)
    }
    #[scpi(cmd = "ARB?")]
    async fn arb<'a>(&mut self, a: &'a [u8]) -> Result<Arbitrary<'a>, scpi::Error> {
        Ok(Arbitrary(a))
    }
    #[scpi(cmd = "CH?")]
    async fn ch(&mut self) -> Result<Characters<'static>, scpi::Error> {
        Ok(Characters("ABC"))
    }
    #[scpi(cmd = "L?")]
    async fn l(&mut self) -> Result<heapless::Vec<i16, 4>, scpi::Error> {
        let mut v = heapless::Vec::new();
        let _ = v.push(-1);
        let _ = v.push(i16::MIN);
        Ok(v)
    }
    #[scpi(cmd = "SL?")]
    async fn sl(&mut self) -> Result<&'static [&'static str], scpi::Error> {
        Ok(&["x", "\"", ""])
    }
    #[scpi(cmd = "E?")]
    async fn e(&mut self) -> Result<scpi::Error, scpi::Error> {
        Ok(scpi::Error::QueryError)
    }
    #[scpi(cmd = "FAIL?")]
    async fn fail(&mut self) -> Result<u8, scpi::Error> {
        Err(scpi::Error::Custom(7, "custom"))
    }
    #[scpi(cmd = "T?")]
    async fn t(&mut self, a: i8, b: u8, c: i16, d: u16) -> Result<(i8, u8, i16, u16), scpi::Error> {
        Ok((a, b, c, d))
    }
    #[scpi(cmd = "U?")]
    async fn u(&mut self, a: i32, b: u32, c: i64) -> Result<(i32, u32, i64), scpi::Error> {
        Ok((a, b, c))
    }
    #[scpi(cmd = "W?")]
    async fn w(&mut self, a: isize, b: usize) -> Result<(isize, usize), scpi::Error> {
        Ok((a, b))
    }
    #[scpi(cmd = "TEN")]
    #[allow(clippy::too_many_arguments)]
    async fn ten(
        &mut self, _a: u8, _b: u8, _c: u8, _d: u8, _e: u8, _f: u8, _g: u8, _h: u8, _i: u8, _j: u8,
    ) -> Result<(), scpi::Error> {
        Ok(())
    }
}

fn dev() -> Dev {
    Dev { errors: StaticErrorQueue::new(), v: 42 }
}

/// Delivers the data in chunks given by `sizes` (cyclic), suspends once before
/// every read and write, and fails at the end of the data.
struct Chunks<'a> {
    data: &'a [u8],
    sizes: &'a [usize],
    next: usize,
    pending: bool,
    written: usize,
}

struct YieldOnce(bool);
impl Future for YieldOnce {
    type Output = ();
    fn poll(mut self: std::pin::Pin<&mut Self>, _cx: &mut Context<'_>) -> Poll<()> {
        if self.0 {
            Poll::Ready(())
        }
        else {
            self.0 = true;
            Poll::Pending
        }
    }
}

impl Adapter for Chunks<'_> {
    type Error = ();
    async fn read(&mut self, dst: &mut [u8]) -> Result<usize, ()> {
        if self.pending {
            YieldOnce(false).await;
        }
        if self.data.is_empty() || dst.is_empty() {
            return Err(());
        }
        let size = self.sizes[self.next % self.sizes.len()].max(1);
        self.next += 1;
        let n = size.min(dst.len()).min(self.data.len());
        dst[..n].copy_from_slice(&self.data[..n]);
        self.data = &self.data[n..];
        Ok(n)
    }
    async fn write(&mut self, src: &[u8]) -> Result<(), ()> {
        if self.pending {
            YieldOnce(false).await;
        }
        self.written += src.len();
        Ok(())
    }
    async fn flush(&mut self) -> Result<(), ()> {
        Ok(())
    }
}

struct Rng(u64);
impl Rng {
    fn next(&mut self) -> u64 {
        self.0 ^= self.0 << 13;
        self.0 ^= self.0 >> 7;
        self.0 ^= self.0 << 17;
        self.0
    }
    fn below(&mut self, n: usize) -> usize {
        (self.next() % n as u64) as usize
    }
}

const TOKENS: &[&[u8]] = &[
    b"*IDN?", b"*RST", b"SYST", b"SYSTEM", b":", b"VAL", b"VALUE", b"?", b" ", b";", b"\n", b",",
    b"F?", b"FF?", b"B?", b"S?", b"ECHO?", b"ARB?", b"CH?", b"L?", b"SL?", b"E?", b"FAIL?", b"T?",
    b"U?", b"W?", b"TEN", b"ERR", b"NEXT", b"COUN", b"VERS", b"1", b"0", b"-1", b"1e308", b"1e-400",
    b"1.5", b".5e+3", b"99999999999999999999999999", b"ON", b"off", b"TRUE", b"#H7F", b"#B101",
    b"#Q17", b"\"abc\"", b"'a\"b'", b"\"", b"'", b"#", b"#1", b"#13abc", b"#10", b"#205hello",
    b"#9000000003abc", b"#9999999999", b"#3", b"\"\n\"", b"#11\n", b"\r", b"\t", b"\xff", b"*",
    b"UNKNOWN", b"1,2,3,4,5,6,7,8,9,10", b"1,2,3,4,5,6,7,8,9,10,11", b"18446744073709551616",
    b"18446744073709551615", b"-128", b"255", b"65535", b"-32768",
];

fn random_input(rng: &mut Rng, out: &mut Vec<u8>) {
    out.clear();
    let n = 1 + rng.below(12);
    for _ in 0..n {
        if rng.below(10) == 0 {
            out.push(rng.next() as u8);
        }
        else {
            out.extend_from_slice(TOKENS[rng.below(TOKENS.len())]);
        }
    }
    if rng.below(4) != 0 {
        out.push(b'\n');
    }
}

const FIXED: &[&[u8]] = &[
    b"*IDN?\n",
    b"*IDN?;*IDN?;*IDN?;*IDN?\n",
    b"SYST:VAL 7;VAL?;:VAL?;*IDN?\n",
    b"F? 1e308,3.4e38\n",
    b"F? 1e-320,1e-45\n",
    b"F? 123456789012345678901234567890123456789012345678901234567890,1\n",
    b"FF?\n",
    b"ECHO? \"aaaaaaaaaaaaaaaaaaaaaaaaaaaaaaaaaaaaaaaaaaaaaaaaaaaaaaaaaaaaaaaaaaaaaaaaaaa\"\n",
    b"ECHO? '\"\"\"\"\"\"\"\"\"\"\"\"\"\"\"\"\"\"\"\"\"\"\"\"\"\"\"\"\"\"\"\"\"\"\"\"\"'\n",
    b"ARB? #10\n",
    b"ARB? #15hello\n",
    b"ARB? #215hellohellohello\n",
    b"ARB? #9000000005hello\n",
    b"ARB? #9999999999\n",
    b"TEN 1,2,3,4,5,6,7,8,9,10\n",
    b"TEN 1,2,3,4,5,6,7,8,9,10,11\n",
    b"TEN 1,2,3,4,5,6,7,8,9,10,11,12,13,14,15,16,17,18,19,20\n",
    b"L?;SL?;E?;FAIL?;CH?\n",
    b"SYST:ERR?;ERR:NEXT?;:SYST:ERR:COUN?;:SYST:VERS?\n",
    b"T? -128,255,-32768,65535;U? -2147483648,4294967295,-9223372036854775808\n",
    b"W? -9223372036854775808,18446744073709551615\n",
    b"B? ON;B? off;B? tRuE;B? 2\n",
    b"\n\n\n;;;\n",
    b"xxxxxxxxxxxxxxxxxxxxxxxxxxxxxxxxxxxxxxxxxxxxxxxxxxxxxxxxxxxxxxxxxxxxxxxxxxxxxxxxxxx\n",
    b"ECHO? \"xxxxxxxxxxxxxxxxxxxxxxxxxx\nxxxxxxxxxxxxxxxxxxxxxxxxxxxxxx\"\n*IDN?\n",
    b"ARB? #240xxxxxxxxxx\nxxxxxxxxxxxxxxxxxxxxxxxxxxxxx\n*IDN?\n",
];

fn run_all<const N: usize>(input: &[u8]) -> usize {
    let mut d = dev();
    let mut out: heapless::Vec<u8, N> = heapless::Vec::new();
    let (_, count) = counted(|| {
        block_on(d.run(input, &mut out));
    });
    count
}

fn process_all<const N: usize>(input: &[u8], sizes: &[usize], pending: bool) -> usize {
    let mut d = dev();
    let mut adapter = Chunks { data: input, sizes, next: 0, pending, written: 0 };
    let (_, count) = counted(|| {
        let _ = block_on(d.process::<N, _>(&mut adapter));
    });
    count
}

fn check(input: &[u8], sizes: &[usize], failures: &mut Vec<String>) {
    let report = |what: &str, count: usize, failures: &mut Vec<String>| {
        if count != 0 && failures.len() < 20 {
            failures.push(format!("{what}: {count} allocations for {:?}", String::from_utf8_lossy(input)));
        }
    };
    let r = std::panic::catch_unwind(|| {
        [
            run_all::<0>(input),
            run_all::<1>(input),
            run_all::<7>(input),
            run_all::<32>(input),
            run_all::<512>(input),
        ]
    });
    match r {
        Ok(counts) => counts.iter().for_each(|c| report("run", *c, failures)),
        Err(_) => failures.push(format!("run panicked for {:?}", String::from_utf8_lossy(input))),
    }
    let r = std::panic::catch_unwind(|| {
        [
            process_all::<1>(input, sizes, false),
            process_all::<2>(input, sizes, true),
            process_all::<5>(input, sizes, false),
            process_all::<16>(input, sizes, true),
            process_all::<33>(input, sizes, false),
            process_all::<256>(input, sizes, true),
        ]
    });
    match r {
        Ok(counts) => counts.iter().for_each(|c| report("process", *c, failures)),
        Err(_) => failures.push(format!("process panicked for {:?}", String::from_utf8_lossy(input))),
    }
}

#[test]
fn allocator_is_counting() {
    let (_, count) = counted(|| std::hint::black_box(vec![1u8; 100]));
    assert!(count > 0);
}

#[test]
fn no_allocation_fixed_inputs() {
    let mut failures = Vec::new();
    for input in FIXED {
        for sizes in [&[1usize][..], &[3], &[1000], &[2, 7, 1]] {
            check(input, sizes, &mut failures);
        }
    }
    assert!(failures.is_empty(), "{failures:#?}");
}

#[test]
fn no_allocation_random_inputs() {
    let mut failures = Vec::new();
    let mut rng = Rng(0x9E3779B97F4A7C15);
    let mut input = Vec::with_capacity(4096);
    let iterations: usize = std::env::var("C13_ITER").ok().and_then(|v| v.parse().ok()).unwrap_or(20000);
    for _ in 0..iterations {
        random_input(&mut rng, &mut input);
        let sizes = [1 + rng.below(8), 1 + rng.below(40), 1 + rng.below(3)];
        check(&input, &sizes, &mut failures);
        if failures.len() >= 20 {
            break;
        }
    }
    assert!(failures.is_empty(), "{failures:#?}");
}

#[test]
fn sanity_outputs() {
    let mut d = dev();
    let mut out: heapless::Vec<u8, 512> = heapless::Vec::new();
    let input = b"*IDN?;F? 1e308,1.5;FF?;ARB? #15hello;L?;SL?;E?;T? -128,255,-32768,65535;ECHO? 'x\"y'\n";
    let (_, count) = counted(|| { block_on(d.run(input, &mut out)); });
    println!("{}", String::from_utf8_lossy(&out));
    assert_eq!(count, 0);
    assert!(out.len() > 400, "{}", out.len());
    let mut adapter = Chunks { data: input, sizes: &[3], next: 0, pending: true, written: 0 };
    let mut d = dev();
    let (_, count) = counted(|| { let _ = block_on(d.process::<128, _>(&mut adapter)); });
    assert_eq!(count, 0);
    println!("written {}", adapter.written);
    assert!(adapter.written > 0);
}
