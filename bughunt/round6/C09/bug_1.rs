// C09 violation: SYSTem:ERRor[:NEXT]? removes the oldest entry from the queue BEFORE its
// response has been written. If writing the response fails (the response buffer of
// `Interface::process::<N>` holds N bytes for the responses of one whole message), the
// response is rolled back, -223 "Too much data" is appended to the queue - and the entry that
// was popped is gone for good: it was removed but never returned.
//
// Put this file into microscpi/tests/ and run
//   cargo test --workspace --offline --test bug_1
use std::collections::VecDeque;
use std::future::Future;
use std::pin::pin;
use std::task::{Context, Poll, RawWaker, RawWakerVTable, Waker};

use microscpi::{self as scpi, Adapter, ErrorCommands, ErrorQueue, Interface, StaticErrorQueue};

fn block_on<F: Future>(fut: F) -> F::Output {
    fn clone(_: *const ()) -> RawWaker {
        RawWaker::new(core::ptr::null(), &VTABLE)
    }
    fn noop(_: *const ()) {}
    static VTABLE: RawWakerVTable = RawWakerVTable::new(clone, noop, noop, noop);
    let waker = unsafe { Waker::from_raw(RawWaker::new(core::ptr::null(), &VTABLE)) };
    let mut cx = Context::from_waker(&waker);
    let mut fut = pin!(fut);
    loop {
        if let Poll::Ready(value) = fut.as_mut().poll(&mut cx) {
            return value;
        }
    }
}

pub struct Dev {
    errors: StaticErrorQueue<8>,
}

impl ErrorCommands for Dev {
    fn error_queue(&mut self) -> &mut impl ErrorQueue {
        &mut self.errors
    }
}

#[scpi::interface(ErrorCommands)]
impl Dev {
    #[scpi(cmd = "NOP")]
    async fn nop(&mut self) -> Result<(), scpi::Error> {
        Ok(())
    }
}

/// Hands out the given reads one after the other, then fails (which ends `process`).
struct Pipe {
    reads: VecDeque<Vec<u8>>,
    out: Vec<u8>,
}

impl Adapter for Pipe {
    type Error = ();

    async fn read(&mut self, dst: &mut [u8]) -> Result<usize, ()> {
        let Some(mut chunk) = self.reads.pop_front() else { return Err(()) };
        let n = chunk.len().min(dst.len());
        dst[..n].copy_from_slice(&chunk[..n]);
        if n < chunk.len() {
            self.reads.push_front(chunk.split_off(n));
        }
        Ok(n)
    }

    async fn write(&mut self, src: &[u8]) -> Result<(), ()> {
        self.out.extend_from_slice(src);
        Ok(())
    }

    async fn flush(&mut self) -> Result<(), ()> {
        Ok(())
    }
}

fn drive<const N: usize>(dev: &mut Dev, reads: &[&[u8]]) -> String {
    let mut pipe = Pipe { reads: reads.iter().map(|r| r.to_vec()).collect(), out: Vec::new() };
    let _ = block_on(dev.process::<N, _>(&mut pipe));
    String::from_utf8(pipe.out).unwrap()
}

/// Several queue queries in one message: the third response does not fit any more into the
/// 64 bytes, so the third entry is dropped on the floor.
#[test]
fn several_queries_in_one_message_lose_an_entry() {
    let mut dev = Dev { errors: StaticErrorQueue::new() };

    // Three faulty messages, three entries: -113, -113, -115.
    let out = drive::<64>(&mut dev, &[b"FOO\n", b"BAR\n", b"NOP 1\n"]);
    assert_eq!(out, "");
    assert_eq!(dev.errors.error_count(), 3);

    let out = drive::<64>(
        &mut dev,
        &[b"SYST:ERR?;ERR?;ERR?\n", b"SYST:ERR?\n", b"SYST:ERR?\n", b"SYST:ERR?\n"],
    );
    let lines: Vec<&str> = out.lines().collect();

    // The errors are retrievable in the order they occurred, each of them exactly once.
    // Whatever happens to the query whose response does not fit: the entry -115 is older than
    // anything that query may add to the queue, so it has to be the third one that is returned.
    assert_eq!(lines[0], "-113,\"Undefined header\"");
    assert_eq!(lines[1], "-113,\"Undefined header\"");
    assert_eq!(
        lines[2], "-115,\"Unexpected number of parameters\"",
        "the third entry was removed without being returned; all responses: {out:?}"
    );
}

/// One query per message is enough if the buffer is small. The entry is not returned (fair
/// enough, it does not fit), but it is not kept either: reading the queue afterwards through
/// a bigger buffer shows that it is gone.
#[test]
fn entry_removed_but_not_returned() {
    let mut dev = Dev { errors: StaticErrorQueue::new() };

    // 32 bytes are plenty for all the commands used here and for `-113,"Undefined header"\n`,
    // but not for `-115,"Unexpected number of parameters"\n` (39 bytes).
    let out = drive::<32>(&mut dev, &[b"NOP 1\n", b"SYST:ERR:COUN?\n"]);
    assert_eq!(out, "1\n");

    // Nothing can be returned for this query, and nothing is.
    let out = drive::<32>(&mut dev, &[b"SYST:ERR?\n"]);
    assert_eq!(out, "");

    // The same device, served with a buffer that is big enough: the oldest entry is still
    // -115, because it has never been returned.
    let out = drive::<128>(&mut dev, &[b"SYST:ERR?\n", b"SYST:ERR?\n", b"SYST:ERR?\n"]);
    assert!(
        out.starts_with("-115,\"Unexpected number of parameters\"\n"),
        "the oldest entry (-115) was removed from the queue without ever being returned: {out:?}"
    );
}
