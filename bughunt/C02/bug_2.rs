//! Adjacent to C02 (outside its quantification, the first message is faulty):
//! after a parse error `run` resynchronises at the first '\n' byte of its input,
//! even when that byte lies inside a string of the faulty message. The rest of
//! the string is then executed as program text, and if that text ends in an
//! unterminated string the library keeps it as the beginning of a message and
//! swallows the following, perfectly valid messages.

use microscpi::{self as scpi, Adapter, Interface};

pub struct Dev {
    log: Vec<String>,
    errors: Vec<scpi::Error>,
}

impl scpi::ErrorHandler for Dev {
    fn handle_error(&mut self, error: scpi::Error) {
        self.errors.push(error);
    }
}

#[scpi::interface]
impl Dev {
    #[scpi(cmd = "A")]
    pub async fn a(&mut self, s: &str) -> Result<(), scpi::Error> {
        self.log.push(format!("A {s:?}"));
        Ok(())
    }

    #[scpi(cmd = "B:A")]
    pub async fn ba(&mut self) -> Result<(), scpi::Error> {
        self.log.push("B:A".into());
        Ok(())
    }

    #[scpi(cmd = "Q")]
    pub async fn q(&mut self) -> Result<(), scpi::Error> {
        self.log.push("Q".into());
        Ok(())
    }
}

struct Script {
    data: Vec<u8>,
    pos: usize,
}

impl Adapter for Script {
    type Error = ();

    async fn read(&mut self, dst: &mut [u8]) -> Result<usize, ()> {
        if self.pos >= self.data.len() {
            return Err(());
        }
        let n = dst.len().min(self.data.len() - self.pos);
        dst[..n].copy_from_slice(&self.data[self.pos..self.pos + n]);
        self.pos += n;
        Ok(n)
    }

    async fn write(&mut self, _src: &[u8]) -> Result<(), ()> {
        Ok(())
    }

    async fn flush(&mut self) -> Result<(), ()> {
        Ok(())
    }
}

#[tokio::test]
async fn valid_message_after_a_faulty_one_selects_its_handler() {
    // Message 1: `A` with the string "x\nB:A;A " followed by the junk `z`: a
    // syntax error. Message 2: `Q`.
    let input = b"A \"x\nB:A;A \" z\nQ\n";

    let mut dev = Dev { log: Vec::new(), errors: Vec::new() };
    let mut adapter = Script { data: input.to_vec(), pos: 0 };
    let _ = dev.process::<64, _>(&mut adapter).await;

    assert_eq!(
        dev.log,
        ["Q"],
        "message 2 selects `Q` whatever was sent before it, and nothing inside the string of \
         message 1 is program text; errors: {:?}",
        dev.errors
    );
}
