//! C02, part 1: a program message that is longer than the command buffer of
//! `Interface::process::<N, _>` is cut in two. The head is thrown away, the tail
//! is then taken for a program message of its own and its first unit, which the
//! sender wrote after a ';' and therefore relative to the path of the preceding
//! unit, is resolved at the root and executed there.
//!
//! Tree: `AAAA:BBBB:C <n>`, `AAAA:BBBB:X` and a root level `X`.
//! Message (18 bytes, N = 16): `AAAA:BBBB:C 123;X\n`
//!
//! Demanded by C02: `X` follows ';' and is resolved relative to `AAAA:BBBB`, i.e.
//! the only handlers this message may ever select are `AAAA:BBBB:C` and
//! `AAAA:BBBB:X`. Observed: the root level `X` handler runs.

use microscpi::{self as scpi, Adapter, Interface};

pub struct Dev {
    log: Vec<String>,
    errors: Vec<scpi::Error>,
}

impl scpi::ErrorHandler for Dev {
    fn handle_error(&mut self, error: scpi::Error) {
        self.errors.push(error);
    }
}

#[scpi::interface]
impl Dev {
    #[scpi(cmd = "AAAA:BBBB:C")]
    pub async fn c(&mut self, n: u32) -> Result<(), scpi::Error> {
        self.log.push(format!("AAAA:BBBB:C {n}"));
        Ok(())
    }

    #[scpi(cmd = "AAAA:BBBB:X")]
    pub async fn nested_x(&mut self) -> Result<(), scpi::Error> {
        self.log.push("AAAA:BBBB:X".into());
        Ok(())
    }

    #[scpi(cmd = "X")]
    pub async fn root_x(&mut self) -> Result<(), scpi::Error> {
        self.log.push("X (root)".into());
        Ok(())
    }
}

/// Hands out the scripted bytes, as many as the library asks for, and ends the
/// `process` loop with an error once everything was delivered.
struct Script {
    data: Vec<u8>,
    pos: usize,
}

impl Adapter for Script {
    type Error = ();

    async fn read(&mut self, dst: &mut [u8]) -> Result<usize, ()> {
        if self.pos >= self.data.len() {
            return Err(());
        }
        let n = dst.len().min(self.data.len() - self.pos);
        dst[..n].copy_from_slice(&self.data[self.pos..self.pos + n]);
        self.pos += n;
        Ok(n)
    }

    async fn write(&mut self, _src: &[u8]) -> Result<(), ()> {
        Ok(())
    }

    async fn flush(&mut self) -> Result<(), ()> {
        Ok(())
    }
}

#[tokio::test]
async fn tail_of_an_overlong_message_is_not_a_message_of_its_own() {
    let message = b"AAAA:BBBB:C 123;X\n";
    assert_eq!(message.len(), 18);

    // Reference: with enough room the message selects the two nested handlers.
    let mut dev = Dev { log: Vec::new(), errors: Vec::new() };
    let mut adapter = Script { data: message.to_vec(), pos: 0 };
    let _ = dev.process::<32, _>(&mut adapter).await;
    assert_eq!(dev.log, ["AAAA:BBBB:C 123", "AAAA:BBBB:X"]);

    // N = 16: the first 16 bytes `AAAA:BBBB:C 123;` fill the buffer.
    let mut dev = Dev { log: Vec::new(), errors: Vec::new() };
    let mut adapter = Script { data: message.to_vec(), pos: 0 };
    let _ = dev.process::<16, _>(&mut adapter).await;

    assert!(
        !dev.log.iter().any(|entry| entry == "X (root)"),
        "the unit `X` was written after ';' behind `AAAA:BBBB:C 123`, it must never select the \
         root level handler; executed: {:?}, errors: {:?}",
        dev.log,
        dev.errors
    );
}
