//! C10, part 1: `process` writes something that is not a query response.
//!
//! A handler that is declared for a *command* header (no `?`) may return any
//! `Response` type. The generated `execute_command` writes the returned value
//! into the response buffer no matter whether the program unit was a query,
//! `Interface::execute` only adds the terminator for queries, and `process`
//! sends whatever is in the buffer. So the message `COUN\n`, which contains no
//! query at all, makes `process` write (and flush) the bytes `5` - without a
//! terminator - to the transport.
//!
//! The property says: "it writes nothing for a message that produced no
//! response and never writes anything other than query responses".

use std::collections::VecDeque;

use microscpi::{self as scpi, Adapter, ErrorCommands, ErrorQueue, Interface, StaticErrorQueue};

#[derive(Debug, Clone, PartialEq)]
enum Call {
    Read(Vec<u8>),
    Write(Vec<u8>),
    Flush,
}

/// A transport that hands out the scripted chunks, one per `read`, records every
/// call and fails the `read` that follows the last chunk.
struct Script {
    chunks: VecDeque<Vec<u8>>,
    log: Vec<Call>,
}

impl Script {
    fn new(chunks: &[&[u8]]) -> Script {
        Script {
            chunks: chunks.iter().map(|c| c.to_vec()).collect(),
            log: Vec::new(),
        }
    }
}

impl Adapter for Script {
    type Error = &'static str;

    async fn read(&mut self, dst: &mut [u8]) -> Result<usize, Self::Error> {
        let Some(mut chunk) = self.chunks.pop_front()
        else {
            return Err("end of script");
        };
        let count = chunk.len().min(dst.len());
        let rest = chunk.split_off(count);
        if !rest.is_empty() {
            self.chunks.push_front(rest);
        }
        dst[..count].copy_from_slice(&chunk);
        self.log.push(Call::Read(chunk));
        Ok(count)
    }

    async fn write(&mut self, src: &[u8]) -> Result<(), Self::Error> {
        self.log.push(Call::Write(src.to_vec()));
        Ok(())
    }

    async fn flush(&mut self) -> Result<(), Self::Error> {
        self.log.push(Call::Flush);
        Ok(())
    }
}

struct Device {
    errors: StaticErrorQueue<4>,
    counted: u32,
}

impl ErrorCommands for Device {
    fn error_queue(&mut self) -> &mut impl ErrorQueue {
        &mut self.errors
    }
}

#[scpi::interface(ErrorCommands)]
impl Device {
    /// A command (not a query) whose handler happens to return a value, e.g. because
    /// the same function is used elsewhere or returns the new count for convenience.
    #[scpi(cmd = "COUNt")]
    fn count(&mut self) -> Result<u32, scpi::Error> {
        self.counted += 1;
        Ok(5)
    }

    #[scpi(cmd = "COUNt?")]
    fn count_query(&mut self) -> Result<u32, scpi::Error> {
        Ok(self.counted)
    }
}

#[tokio::test]
async fn a_command_that_is_not_a_query_makes_process_write_to_the_transport() {
    let mut device = Device {
        errors: StaticErrorQueue::new(),
        counted: 0,
    };
    let mut adapter = Script::new(&[b"COUN\n"]);

    let result = device.process::<32, _>(&mut adapter).await;

    assert_eq!(result, Err("end of script"));
    assert_eq!(device.counted, 1, "the command was executed once");
    assert_eq!(device.errors.error_count(), 0, "and it raised no error");

    // The message contains no query: nothing may be written to the transport.
    // Unmodified library: [Read("COUN\n"), Write("5"), Flush].
    assert_eq!(adapter.log, vec![Call::Read(b"COUN\n".to_vec())]);
}

#[tokio::test]
async fn the_stray_bytes_run_into_the_next_response() {
    let mut device = Device {
        errors: StaticErrorQueue::new(),
        counted: 0,
    };
    // A controller in lock step: the command gets no answer, so the query follows.
    let mut adapter = Script::new(&[b"COUN\n", b"COUN?\n"]);

    let result = device.process::<32, _>(&mut adapter).await;
    assert_eq!(result, Err("end of script"));

    let written: Vec<u8> = adapter
        .log
        .iter()
        .filter_map(|call| match call {
            Call::Write(bytes) => Some(bytes.clone()),
            _ => None,
        })
        .flatten()
        .collect();

    // The only query response is "1\n". Unmodified library: "51\n".
    assert_eq!(written, b"1\n");
}
