//! C03 bug 4: a message that does not fit into the buffer of `process` is
//! discarded only up to the next raw newline. If that newline lies inside a
//! string or a definite-length block of the over-long message, the rest of the
//! literal is executed as program messages: a handler receives a fragment of a
//! literal (a truncated value), or a value that was never sent as a parameter.
use microscpi::{self as scpi, Interface};

#[derive(Default)]
struct Dev {
    errors: Vec<scpi::Error>,
    calls: Vec<String>,
}

impl scpi::ErrorHandler for Dev {
    fn handle_error(&mut self, error: scpi::Error) {
        self.errors.push(error);
    }
}

#[scpi::interface]
impl Dev {
    #[scpi(cmd = "NAME")]
    async fn name(&mut self, v: &str) -> Result<(), scpi::Error> {
        self.calls.push(format!("NAME {v:?}"));
        Ok(())
    }

    #[scpi(cmd = "DATA")]
    async fn data(&mut self, v: &[u8]) -> Result<(), scpi::Error> {
        self.calls.push(format!("DATA {v:?}"));
        Ok(())
    }

    #[scpi(cmd = "LEVel")]
    async fn level(&mut self, v: u8) -> Result<(), scpi::Error> {
        self.calls.push(format!("LEV {v}"));
        Ok(())
    }
}

/// Delivers the script in chunks of at most `chunk` bytes, then fails.
struct Script<'a> {
    data: &'a [u8],
    chunk: usize,
}

impl scpi::Adapter for Script<'_> {
    type Error = ();

    async fn read(&mut self, dst: &mut [u8]) -> Result<usize, ()> {
        if self.data.is_empty() {
            return Err(());
        }
        let n = self.chunk.min(dst.len()).min(self.data.len());
        dst[..n].copy_from_slice(&self.data[..n]);
        self.data = &self.data[n..];
        Ok(n)
    }

    async fn write(&mut self, _src: &[u8]) -> Result<(), ()> {
        Ok(())
    }

    async fn flush(&mut self) -> Result<(), ()> {
        Ok(())
    }
}

async fn process<const N: usize>(data: &[u8], chunk: usize) -> Dev {
    let mut dev = Dev::default();
    let mut adapter = Script { data, chunk };
    let _ = dev.process::<N, _>(&mut adapter).await;
    dev
}

#[tokio::test]
async fn the_messages_are_fine_when_they_fit() {
    let dev = process::<64>(b"NAME \"aaaaaaaaaaaaaaaaaaaaaaaaaa\nNAME 'frag'\n\"\nLEV 1\n", 7).await;
    assert_eq!(dev.calls, ["NAME \"aaaaaaaaaaaaaaaaaaaaaaaaaa\\nNAME 'frag'\\n\"", "LEV 1"]);
    assert!(dev.errors.is_empty());

    let dev = process::<64>(b"DATA #230aaaaaaaaaaaaaaaaaaaaaa\nLEV 7\nb\nLEV 1\n", 7).await;
    assert_eq!(dev.calls.len(), 2);
    assert_eq!(dev.calls[1], "LEV 1");
    assert!(dev.errors.is_empty());
}

#[tokio::test]
async fn fragment_of_an_overlong_string_is_not_delivered() {
    for chunk in [1, 7, 1000] {
        // One NAME command with a 39 byte string, then LEV 1.
        let dev = process::<20>(b"NAME \"aaaaaaaaaaaaaaaaaaaaaaaaaa\nNAME 'frag'\n\"\nLEV 1\n", chunk).await;
        assert!(
            !dev.calls.iter().any(|c| c.contains("frag")),
            "chunk {chunk}: a piece of the string literal was delivered as a value: {:?}",
            dev.calls
        );
    }
}

#[tokio::test]
async fn payload_of_an_overlong_block_is_not_executed() {
    for chunk in [1, 7, 1000] {
        // One DATA command with a 30 byte block, then LEV 1. `LEV 7` is payload.
        let dev = process::<20>(b"DATA #230aaaaaaaaaaaaaaaaaaaaaa\nLEV 7\nb\nLEV 1\n", chunk).await;
        assert!(
            !dev.calls.iter().any(|c| c == "LEV 7"),
            "chunk {chunk}: block payload was executed: {:?} {:?}",
            dev.calls,
            dev.errors
        );
    }
}
