//! C03 bug 2: the decimal integer literal `-0` (value zero, which every integer
//! type can hold) is delivered to signed handlers but rejected with -120 for
//! unsigned ones.
use microscpi::{self as scpi, Interface};

#[derive(Default)]
struct Dev {
    errors: Vec<scpi::Error>,
    calls: Vec<i128>,
}

impl scpi::ErrorHandler for Dev {
    fn handle_error(&mut self, error: scpi::Error) {
        self.errors.push(error);
    }
}

#[scpi::interface]
impl Dev {
    #[scpi(cmd = "U8")]
    async fn set_u8(&mut self, v: u8) -> Result<(), scpi::Error> {
        self.calls.push(v as i128);
        Ok(())
    }

    #[scpi(cmd = "U64")]
    async fn set_u64(&mut self, v: u64) -> Result<(), scpi::Error> {
        self.calls.push(v as i128);
        Ok(())
    }

    #[scpi(cmd = "USIZE")]
    async fn set_usize(&mut self, v: usize) -> Result<(), scpi::Error> {
        self.calls.push(v as i128);
        Ok(())
    }

    #[scpi(cmd = "I8")]
    async fn set_i8(&mut self, v: i8) -> Result<(), scpi::Error> {
        self.calls.push(v as i128);
        Ok(())
    }
}

async fn run(msg: &str) -> Dev {
    let mut dev = Dev::default();
    let mut out: heapless::Vec<u8, 64> = heapless::Vec::new();
    dev.run(msg.as_bytes(), &mut out).await;
    dev
}

#[tokio::test]
async fn other_spellings_of_zero_are_delivered() {
    for msg in ["U8 0\n", "U8 +0\n", "U8 000\n", "U8 #H0\n", "I8 -0\n", "I8 -000\n"] {
        let dev = run(msg).await;
        assert_eq!(dev.calls, [0], "{msg:?}");
        assert!(dev.errors.is_empty(), "{msg:?}: {:?}", dev.errors);
    }
}

#[tokio::test]
async fn minus_zero_is_delivered_to_unsigned_handlers() {
    for msg in ["U8 -0\n", "U8 -000\n", "U64 -0\n", "USIZE -0\n"] {
        let dev = run(msg).await;
        assert_eq!(dev.calls, [0], "{msg:?}: errors {:?}", dev.errors);
        assert!(dev.errors.is_empty(), "{msg:?}: {:?}", dev.errors);
    }
}
