//! C03 bug 1: a decimal literal beyond the range of f32/f64 is delivered to the
//! handler as +/-infinity instead of being rejected (-120) without a call.
use microscpi::{self as scpi, Interface};

#[derive(Default)]
struct Dev {
    errors: Vec<scpi::Error>,
    f32_calls: Vec<f32>,
    f64_calls: Vec<f64>,
}

impl scpi::ErrorHandler for Dev {
    fn handle_error(&mut self, error: scpi::Error) {
        self.errors.push(error);
    }
}

#[scpi::interface]
impl Dev {
    #[scpi(cmd = "F32")]
    async fn set_f32(&mut self, v: f32) -> Result<(), scpi::Error> {
        self.f32_calls.push(v);
        Ok(())
    }

    #[scpi(cmd = "F64")]
    async fn set_f64(&mut self, v: f64) -> Result<(), scpi::Error> {
        self.f64_calls.push(v);
        Ok(())
    }
}

async fn run(msg: &str) -> Dev {
    let mut dev = Dev::default();
    let mut out: heapless::Vec<u8, 64> = heapless::Vec::new();
    dev.run(msg.as_bytes(), &mut out).await;
    dev
}

#[tokio::test]
async fn largest_finite_values_are_delivered_exactly() {
    let dev = run("F32 3.4028235e38\n").await;
    assert_eq!(dev.f32_calls, [f32::MAX]);
    assert!(dev.errors.is_empty());

    let dev = run("F64 -1.7976931348623157e308\n").await;
    assert_eq!(dev.f64_calls, [f64::MIN]);
    assert!(dev.errors.is_empty());
}

#[tokio::test]
async fn f32_literal_beyond_the_range_is_not_delivered_as_infinity() {
    for msg in ["F32 3.5e38\n", "F32 1e39\n", "F32 -1e39\n", "F32 +340282356779733661637539395458142568448\n"] {
        let dev = run(msg).await;
        assert!(
            dev.f32_calls.is_empty(),
            "{msg:?}: handler was invoked with {:?}, which is not the value written",
            dev.f32_calls
        );
        assert_eq!(dev.errors.len(), 1, "{msg:?}: {:?}", dev.errors);
    }
}

#[tokio::test]
async fn f64_literal_beyond_the_range_is_not_delivered_as_infinity() {
    for msg in ["F64 1.8e308\n", "F64 1e309\n", "F64 -1e309\n", "F64 1e99999999999999999999\n"] {
        let dev = run(msg).await;
        assert!(
            dev.f64_calls.is_empty(),
            "{msg:?}: handler was invoked with {:?}, which is not the value written",
            dev.f64_calls
        );
        assert_eq!(dev.errors.len(), 1, "{msg:?}: {:?}", dev.errors);
    }
}
