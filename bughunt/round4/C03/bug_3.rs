//! C03 bug 3: the boolean literals ON and OFF are only recognised in all-upper
//! or all-lower case, although program mnemonics are case-insensitive (and the
//! library matches headers case-insensitively).
use microscpi::{self as scpi, Interface};

#[derive(Default)]
struct Dev {
    errors: Vec<scpi::Error>,
    calls: Vec<bool>,
}

impl scpi::ErrorHandler for Dev {
    fn handle_error(&mut self, error: scpi::Error) {
        self.errors.push(error);
    }
}

#[scpi::interface]
impl Dev {
    #[scpi(cmd = "OUTPut:STATe")]
    async fn output(&mut self, on: bool) -> Result<(), scpi::Error> {
        self.calls.push(on);
        Ok(())
    }
}

async fn run(msg: &str) -> Dev {
    let mut dev = Dev::default();
    let mut out: heapless::Vec<u8, 64> = heapless::Vec::new();
    dev.run(msg.as_bytes(), &mut out).await;
    dev
}

#[tokio::test]
async fn upper_and_lower_case_work() {
    for (msg, value) in [("OUTP:STAT ON\n", true), ("outp:stat on\n", true), ("Outp:State OFF\n", false), ("OUTP:STAT off\n", false)] {
        let dev = run(msg).await;
        assert_eq!(dev.calls, [value], "{msg:?}");
        assert!(dev.errors.is_empty());
    }
}

#[tokio::test]
async fn mixed_case_on_off() {
    for (msg, value) in [("Outp:Stat On\n", true), ("OUTP:STAT oN\n", true), ("Outp:Stat Off\n", false), ("OUTP:STAT oFF\n", false)] {
        let dev = run(msg).await;
        assert_eq!(dev.calls, [value], "{msg:?}: errors {:?}", dev.errors);
        assert!(dev.errors.is_empty(), "{msg:?}: {:?}", dev.errors);
    }
}
