//! C07, second sentence: `process` must equal `run` one message at a time.
//!
//! A message whose only defect is an unterminated string or a block that is
//! longer than the message (`SET 'abc`, `BLK #15`) is left alone by `run`
//! (`ParseError::Incomplete`: nothing invoked, nothing reported) and `run`
//! executes the messages behind it. `process` treats the terminator as part of
//! the string / block, keeps waiting and never executes the following messages
//! (until the string happens to be closed or the buffer overflows, and then
//! everything is discarded without an error).

use std::cell::RefCell;
use std::rc::Rc;

use microscpi::{self as scpi, Adapter, Interface};

/// Everything the property talks about, in order: handlers invoked, errors
/// reported, response bytes written.
#[derive(Debug, Clone, PartialEq)]
enum Ev {
    Handler(&'static str),
    Error(scpi::Error),
    Written(Vec<u8>),
}

type Log = Rc<RefCell<Vec<Ev>>>;

struct Dev {
    log: Log,
}

impl scpi::ErrorHandler for Dev {
    fn handle_error(&mut self, error: scpi::Error) {
        self.log.borrow_mut().push(Ev::Error(error));
    }
}

#[scpi::interface]
impl Dev {
    #[scpi(cmd = "A")]
    async fn a(&mut self) -> Result<(), scpi::Error> {
        self.log.borrow_mut().push(Ev::Handler("A"));
        Ok(())
    }

    #[scpi(cmd = "A?")]
    async fn aq(&mut self) -> Result<u8, scpi::Error> {
        self.log.borrow_mut().push(Ev::Handler("A?"));
        Ok(1)
    }

    #[scpi(cmd = "SET")]
    async fn set(&mut self, _value: &str) -> Result<(), scpi::Error> {
        self.log.borrow_mut().push(Ev::Handler("SET"));
        Ok(())
    }

    #[scpi(cmd = "BLK")]
    async fn blk(&mut self, _value: &[u8]) -> Result<(), scpi::Error> {
        self.log.borrow_mut().push(Ev::Handler("BLK"));
        Ok(())
    }

    #[scpi(cmd = "*IDN?")]
    async fn idn(&mut self) -> Result<&str, scpi::Error> {
        self.log.borrow_mut().push(Ev::Handler("*IDN?"));
        Ok("ACME,MODEL-1234,SN0001,1.0")
    }
}

/// Transport that delivers `data` in reads of at most `chunk` bytes and then
/// fails, which ends `process`.
struct Script {
    data: Vec<u8>,
    pos: usize,
    chunk: usize,
    log: Log,
}

impl Adapter for Script {
    type Error = ();

    async fn read(&mut self, dst: &mut [u8]) -> Result<usize, ()> {
        if self.pos >= self.data.len() {
            return Err(());
        }
        let n = self.chunk.min(dst.len()).min(self.data.len() - self.pos);
        dst[..n].copy_from_slice(&self.data[self.pos..self.pos + n]);
        self.pos += n;
        Ok(n)
    }

    async fn write(&mut self, src: &[u8]) -> Result<(), ()> {
        self.log.borrow_mut().push(Ev::Written(src.to_vec()));
        Ok(())
    }

    async fn flush(&mut self) -> Result<(), ()> {
        Ok(())
    }
}

/// What `process::<N>` does with the byte stream.
async fn by_process<const N: usize>(stream: &[u8], chunk: usize) -> Vec<Ev> {
    let log: Log = Rc::new(RefCell::new(Vec::new()));
    let mut dev = Dev { log: log.clone() };
    let mut adapter = Script { data: stream.to_vec(), pos: 0, chunk, log: log.clone() };
    let _ = dev.process::<N, _>(&mut adapter).await;
    let events = log.borrow().clone();
    events
}

/// What handing the messages of the stream to `run` one at a time does. A
/// message is everything up to and including a newline; the response of each
/// message goes to a writer of capacity `R`.
async fn by_run<const N: usize, const R: usize>(stream: &[u8]) -> Vec<Ev> {
    let log: Log = Rc::new(RefCell::new(Vec::new()));
    let mut dev = Dev { log: log.clone() };
    for message in stream.split_inclusive(|b| *b == b'\n') {
        // The precondition of the property: the message fits in the command buffer
        // and its only newline is its terminator.
        assert!(message.len() <= N);
        assert_eq!(message.iter().filter(|b| **b == b'\n').count(), 1);
        assert_eq!(message.last(), Some(&b'\n'));
        let mut response: heapless::Vec<u8, R> = heapless::Vec::new();
        dev.run(message, &mut response).await;
        if !response.is_empty() {
            log.borrow_mut().push(Ev::Written(response.to_vec()));
        }
    }
    let events = log.borrow().clone();
    events
}

const N: usize = 64;

#[tokio::test]
async fn unterminated_string() {
    let stream = b"SET 'abc\nA?\nA\n";

    let expected = by_run::<N, N>(stream).await;
    assert_eq!(expected, vec![
        Ev::Handler("A?"),
        Ev::Written(b"1\n".to_vec()),
        Ev::Handler("A"),
    ]);

    for chunk in [1, 3, N] {
        assert_eq!(by_process::<N>(stream, chunk).await, expected, "reads of {chunk} bytes");
    }
}

#[tokio::test]
async fn block_longer_than_the_message() {
    let stream = b"BLK #15\nA?\n";

    let expected = by_run::<N, N>(stream).await;
    assert_eq!(expected, vec![Ev::Handler("A?"), Ev::Written(b"1\n".to_vec())]);

    for chunk in [1, N] {
        assert_eq!(by_process::<N>(stream, chunk).await, expected, "reads of {chunk} bytes");
    }
}
