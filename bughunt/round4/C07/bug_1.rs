//! C07, second sentence: when every message fits in the command buffer and has
//! no newline other than its terminator, `process` must do exactly what handing
//! the messages to `run` one at a time does.
//!
//! A faulty message that contains a single stray quote (`*IDN?'`) is reported by
//! `run` (-101) and the following messages are executed. `process` reports
//! nothing, executes nothing and answers nothing: `is_complete_message` lets
//! `skip_message` decide whether a faulty message is complete, `skip_message`
//! takes the quote for the start of a string that swallows the terminator, and
//! every following message is appended to the "unfinished" one.

use std::cell::RefCell;
use std::rc::Rc;

use microscpi::{self as scpi, Adapter, Interface};

/// Everything the property talks about, in order: handlers invoked, errors
/// reported, response bytes written.
#[derive(Debug, Clone, PartialEq)]
enum Ev {
    Handler(&'static str),
    Error(scpi::Error),
    Written(Vec<u8>),
}

type Log = Rc<RefCell<Vec<Ev>>>;

struct Dev {
    log: Log,
}

impl scpi::ErrorHandler for Dev {
    fn handle_error(&mut self, error: scpi::Error) {
        self.log.borrow_mut().push(Ev::Error(error));
    }
}

#[scpi::interface]
impl Dev {
    #[scpi(cmd = "A")]
    async fn a(&mut self) -> Result<(), scpi::Error> {
        self.log.borrow_mut().push(Ev::Handler("A"));
        Ok(())
    }

    #[scpi(cmd = "A?")]
    async fn aq(&mut self) -> Result<u8, scpi::Error> {
        self.log.borrow_mut().push(Ev::Handler("A?"));
        Ok(1)
    }

    #[scpi(cmd = "SET")]
    async fn set(&mut self, _value: &str) -> Result<(), scpi::Error> {
        self.log.borrow_mut().push(Ev::Handler("SET"));
        Ok(())
    }

    #[scpi(cmd = "BLK")]
    async fn blk(&mut self, _value: &[u8]) -> Result<(), scpi::Error> {
        self.log.borrow_mut().push(Ev::Handler("BLK"));
        Ok(())
    }

    #[scpi(cmd = "*IDN?")]
    async fn idn(&mut self) -> Result<&str, scpi::Error> {
        self.log.borrow_mut().push(Ev::Handler("*IDN?"));
        Ok("ACME,MODEL-1234,SN0001,1.0")
    }
}

/// Transport that delivers `data` in reads of at most `chunk` bytes and then
/// fails, which ends `process`.
struct Script {
    data: Vec<u8>,
    pos: usize,
    chunk: usize,
    log: Log,
}

impl Adapter for Script {
    type Error = ();

    async fn read(&mut self, dst: &mut [u8]) -> Result<usize, ()> {
        if self.pos >= self.data.len() {
            return Err(());
        }
        let n = self.chunk.min(dst.len()).min(self.data.len() - self.pos);
        dst[..n].copy_from_slice(&self.data[self.pos..self.pos + n]);
        self.pos += n;
        Ok(n)
    }

    async fn write(&mut self, src: &[u8]) -> Result<(), ()> {
        self.log.borrow_mut().push(Ev::Written(src.to_vec()));
        Ok(())
    }

    async fn flush(&mut self) -> Result<(), ()> {
        Ok(())
    }
}

/// What `process::<N>` does with the byte stream.
async fn by_process<const N: usize>(stream: &[u8], chunk: usize) -> Vec<Ev> {
    let log: Log = Rc::new(RefCell::new(Vec::new()));
    let mut dev = Dev { log: log.clone() };
    let mut adapter = Script { data: stream.to_vec(), pos: 0, chunk, log: log.clone() };
    let _ = dev.process::<N, _>(&mut adapter).await;
    let events = log.borrow().clone();
    events
}

/// What handing the messages of the stream to `run` one at a time does. A
/// message is everything up to and including a newline; the response of each
/// message goes to a writer of capacity `R`.
async fn by_run<const N: usize, const R: usize>(stream: &[u8]) -> Vec<Ev> {
    let log: Log = Rc::new(RefCell::new(Vec::new()));
    let mut dev = Dev { log: log.clone() };
    for message in stream.split_inclusive(|b| *b == b'\n') {
        // The precondition of the property: the message fits in the command buffer
        // and its only newline is its terminator.
        assert!(message.len() <= N);
        assert_eq!(message.iter().filter(|b| **b == b'\n').count(), 1);
        assert_eq!(message.last(), Some(&b'\n'));
        let mut response: heapless::Vec<u8, R> = heapless::Vec::new();
        dev.run(message, &mut response).await;
        if !response.is_empty() {
            log.borrow_mut().push(Ev::Written(response.to_vec()));
        }
    }
    let events = log.borrow().clone();
    events
}

const N: usize = 64;

#[tokio::test]
async fn stray_single_quote_behind_a_query() {
    let stream = b"*IDN?'\nA?\nA\n";

    let expected = by_run::<N, N>(stream).await;
    assert_eq!(expected, vec![
        Ev::Error(scpi::Error::InvalidCharacter),
        Ev::Handler("A?"),
        Ev::Written(b"1\n".to_vec()),
        Ev::Handler("A"),
    ]);

    for chunk in [1, 2, 5, N] {
        assert_eq!(by_process::<N>(stream, chunk).await, expected, "reads of {chunk} bytes");
    }
}

#[tokio::test]
async fn stray_double_quote_behind_an_undefined_header() {
    let stream = b"FOO\"\nA?\n";

    let expected = by_run::<N, N>(stream).await;
    assert_eq!(expected, vec![
        Ev::Error(scpi::Error::UndefinedHeader),
        Ev::Handler("A?"),
        Ev::Written(b"1\n".to_vec()),
    ]);

    for chunk in [1, N] {
        assert_eq!(by_process::<N>(stream, chunk).await, expected, "reads of {chunk} bytes");
    }
}
