//! C09 bug 1: `SYSTem:ERRor[:NEXT]?` removes the oldest entry from the error
//! queue *before* its response is written. When the response does not fit into
//! the response buffer any more (several queries in one message, or a small
//! `process::<N>` buffer), `Interface::execute` rolls the partial response back
//! and reports a new error - but the entry that was popped is gone: it has been
//! removed without ever being returned, and a different error takes its place.
//!
//! The property demands that errors are retrievable in the order they occurred
//! and that `SYST:ERR?` "removes and returns" the oldest entry, for every
//! interleaving of faults and queue queries, including several in one message.

use microscpi::{self as scpi, Adapter, ErrorCommands, ErrorQueue, Interface, StaticErrorQueue};

pub struct Dev {
    errors: StaticErrorQueue<10>,
}

impl ErrorCommands for Dev {
    fn error_queue(&mut self) -> &mut impl ErrorQueue {
        &mut self.errors
    }
}

#[scpi::interface(ErrorCommands)]
impl Dev {
    #[scpi(cmd = "VALue")]
    pub async fn set_value(&mut self, _v: u32) -> Result<(), scpi::Error> {
        Ok(())
    }

    #[scpi(cmd = "FAIL")]
    pub async fn fail(&mut self) -> Result<(), scpi::Error> {
        Err(scpi::Error::Custom(123, "Custom"))
    }
}

/// Delivers the scripted input in chunks and collects everything written.
struct Script {
    data: Vec<u8>,
    pos: usize,
    chunk: usize,
    out: Vec<u8>,
}

impl Adapter for Script {
    type Error = ();

    async fn read(&mut self, dst: &mut [u8]) -> Result<usize, ()> {
        if self.pos >= self.data.len() {
            return Err(()); // end of the script: leave `process`
        }
        let n = self.chunk.min(dst.len()).min(self.data.len() - self.pos);
        dst[..n].copy_from_slice(&self.data[self.pos..self.pos + n]);
        self.pos += n;
        Ok(n)
    }

    async fn write(&mut self, src: &[u8]) -> Result<(), ()> {
        self.out.extend_from_slice(src);
        Ok(())
    }

    async fn flush(&mut self) -> Result<(), ()> {
        Ok(())
    }
}

/// The error numbers of all `<number>,"<description>"` responses, in order.
fn numbers(out: &[u8]) -> Vec<i32> {
    std::str::from_utf8(out)
        .unwrap()
        .lines()
        .map(|line| line.split(',').next().unwrap().parse().unwrap())
        .collect()
}

/// Four faults: -113, 123, -113, -115.
const FAULTS: &[u8] = b"FOO\nFAIL\nBAR:BAZ\nVAL 1,2\n";
const OCCURRED: [i32; 4] = [-113, 123, -113, -115];

/// Four queue queries in one message (45 bytes, fits every buffer used here),
/// then single queries until the queue must be empty.
const READS: &[u8] =
    b":SYST:ERR?;:SYST:ERR?;:SYST:ERR?;:SYST:ERR?\nSYST:ERR?\nSYST:ERR?\nSYST:ERR?\nSYST:ERR?\n";

#[tokio::test]
async fn process_64_several_reads_in_one_message() {
    let mut dev = Dev { errors: StaticErrorQueue::new() };
    let mut data = FAULTS.to_vec();
    data.extend_from_slice(READS);
    let mut adapter = Script { data, pos: 0, chunk: 16, out: Vec::new() };

    let _ = dev.process::<64, _>(&mut adapter).await;

    let got: Vec<i32> = numbers(&adapter.out).into_iter().filter(|n| *n != 0).collect();
    // Every error that occurred has to come out, oldest first. (Whatever the failed
    // response itself adds to the queue may follow.)
    assert!(
        got.starts_with(&OCCURRED),
        "errors occurred: {:?}, errors retrieved: {:?} (output {:?})",
        OCCURRED,
        got,
        String::from_utf8_lossy(&adapter.out)
    );
}

#[tokio::test]
async fn run_with_64_byte_response_buffer() {
    let mut dev = Dev { errors: StaticErrorQueue::new() };
    let mut out: heapless::Vec<u8, 64> = heapless::Vec::new();
    let mut all = Vec::new();

    dev.run(FAULTS, &mut out).await;
    assert_eq!(dev.errors.error_count(), 4);

    for message in READS.split_inclusive(|b| *b == b'\n') {
        dev.run(message, &mut out).await;
        all.extend_from_slice(&out);
        out.clear();
    }

    let got: Vec<i32> = numbers(&all).into_iter().filter(|n| *n != 0).collect();
    assert!(
        got.starts_with(&OCCURRED),
        "errors occurred: {:?}, errors retrieved: {:?}",
        OCCURRED,
        got
    );
}

/// The same with a single query: the response `-115,"Unexpected number of
/// parameters"` (39 bytes) does not fit into the 32 byte buffer of
/// `process::<32>`, the entry is dropped and "System error" is queued instead.
#[tokio::test]
async fn process_32_single_read() {
    let mut dev = Dev { errors: StaticErrorQueue::new() };
    let data = b"VAL 1,2\nSYST:ERR:COUN?\nSYST:ERR?\nSYST:ERR:COUN?\n".to_vec();
    let mut adapter = Script { data, pos: 0, chunk: 4096, out: Vec::new() };

    let _ = dev.process::<32, _>(&mut adapter).await;

    // One error occurred and none was returned, so -115 still has to be the oldest entry.
    assert_eq!(
        dev.errors.pop_error().map(|e| e.number()),
        Some(-115),
        "output was {:?}",
        String::from_utf8_lossy(&adapter.out)
    );
}
