use std::collections::{HashMap, HashSet};

use microscpi::{self as scpi, Adapter, ErrorHandler, Interface};

#[derive(Default)]
struct Dev {
    log: Vec<usize>,
    errors: usize,
}

impl ErrorHandler for Dev {
    fn handle_error(&mut self, _error: scpi::Error) {
        self.errors += 1;
    }
}

const DECLS: &[&str] = &[
    "A",
    "A?",
    "A:A",
    "A:B?",
    "A:A:A",
    "A:A:B",
    "B",
    "B:A",
    "B:B:A?",
    "[C]:A:C",
    "[C]:D",
    "C:B",
    "A:[B]:D",
    "*X",
    "*Y?",
    "B:[B]:[A]:C?",
    "D:D:D:D",
    "LONGname:SHort",
    "LONGname:A",
    "A:S",
    "B:K",
    "S",
    "A:A:K",
];

#[scpi::interface]
impl Dev {
    #[scpi(cmd = "A")]
    async fn h0(&mut self) -> Result<(), scpi::Error> { self.log.push(0); Ok(()) }
    #[scpi(cmd = "A?")]
    async fn h1(&mut self) -> Result<u8, scpi::Error> { self.log.push(1); Ok(1) }
    #[scpi(cmd = "A:A")]
    async fn h2(&mut self) -> Result<(), scpi::Error> { self.log.push(2); Ok(()) }
    #[scpi(cmd = "A:B?")]
    async fn h3(&mut self) -> Result<u8, scpi::Error> { self.log.push(3); Ok(3) }
    #[scpi(cmd = "A:A:A")]
    async fn h4(&mut self) -> Result<(), scpi::Error> { self.log.push(4); Ok(()) }
    #[scpi(cmd = "A:A:B")]
    async fn h5(&mut self) -> Result<(), scpi::Error> { self.log.push(5); Ok(()) }
    #[scpi(cmd = "B")]
    async fn h6(&mut self) -> Result<(), scpi::Error> { self.log.push(6); Ok(()) }
    #[scpi(cmd = "B:A")]
    async fn h7(&mut self) -> Result<(), scpi::Error> { self.log.push(7); Ok(()) }
    #[scpi(cmd = "B:B:A?")]
    async fn h8(&mut self) -> Result<u8, scpi::Error> { self.log.push(8); Ok(8) }
    #[scpi(cmd = "[C]:A:C")]
    async fn h9(&mut self) -> Result<(), scpi::Error> { self.log.push(9); Ok(()) }
    #[scpi(cmd = "[C]:D")]
    async fn h10(&mut self) -> Result<(), scpi::Error> { self.log.push(10); Ok(()) }
    #[scpi(cmd = "C:B")]
    async fn h11(&mut self) -> Result<(), scpi::Error> { self.log.push(11); Ok(()) }
    #[scpi(cmd = "A:[B]:D")]
    async fn h12(&mut self) -> Result<(), scpi::Error> { self.log.push(12); Ok(()) }
    #[scpi(cmd = "*X")]
    async fn h13(&mut self) -> Result<(), scpi::Error> { self.log.push(13); Ok(()) }
    #[scpi(cmd = "*Y?")]
    async fn h14(&mut self) -> Result<u8, scpi::Error> { self.log.push(14); Ok(14) }
    #[scpi(cmd = "B:[B]:[A]:C?")]
    async fn h15(&mut self) -> Result<u8, scpi::Error> { self.log.push(15); Ok(15) }
    #[scpi(cmd = "D:D:D:D")]
    async fn h16(&mut self) -> Result<(), scpi::Error> { self.log.push(16); Ok(()) }
    #[scpi(cmd = "LONGname:SHort")]
    async fn h17(&mut self) -> Result<(), scpi::Error> { self.log.push(17); Ok(()) }
    #[scpi(cmd = "LONGname:A")]
    async fn h18(&mut self) -> Result<(), scpi::Error> { self.log.push(18); Ok(()) }
    #[scpi(cmd = "A:S")]
    async fn h19(&mut self, s: &str) -> Result<(), scpi::Error> { self.log.push(19); self.log.push(1000 + s.len()); Ok(()) }
    #[scpi(cmd = "B:K")]
    async fn h20(&mut self, s: &[u8]) -> Result<(), scpi::Error> { self.log.push(20); self.log.push(1000 + s.len()); Ok(()) }
    #[scpi(cmd = "S")]
    async fn h21(&mut self, s: &str) -> Result<(), scpi::Error> { self.log.push(21); self.log.push(1000 + s.len()); Ok(()) }
    #[scpi(cmd = "A:A:K")]
    async fn h22(&mut self, s: &[u8]) -> Result<(), scpi::Error> { self.log.push(22); self.log.push(1000 + s.len()); Ok(()) }
}

struct Model {
    handlers: HashMap<(Vec<String>, bool), usize>,
    prefixes: HashSet<Vec<String>>,
}

fn model() -> Model {
    let mut handlers = HashMap::new();
    let mut prefixes = HashSet::new();
    for (id, decl) in DECLS.iter().enumerate() {
        let (decl, query) = match decl.strip_suffix('?') {
            Some(d) => (d, true),
            None => (*decl, false),
        };
        let mut paths: Vec<Vec<String>> = vec![vec![]];
        for part in decl.split(':') {
            let (part, optional) = match part.strip_prefix('[') {
                Some(p) => (p.strip_suffix(']').unwrap(), true),
                None => (part, false),
            };
            let long = part.to_uppercase();
            let short: String = part.chars().filter(|c| !c.is_lowercase()).collect();
            let mut next = Vec::new();
            for p in &paths {
                let mut l = p.clone();
                l.push(long.clone());
                next.push(l);
                if short != long {
                    let mut s = p.clone();
                    s.push(short.clone());
                    next.push(s);
                }
                if optional {
                    next.push(p.clone());
                }
            }
            paths = next;
        }
        for p in paths {
            for n in 1..=p.len() {
                prefixes.insert(p[..n].to_vec());
            }
            handlers.insert((p, query), id);
        }
    }
    Model { handlers, prefixes }
}

struct Rng(u64);
impl Rng {
    fn next(&mut self) -> u64 {
        self.0 ^= self.0 << 13;
        self.0 ^= self.0 >> 7;
        self.0 ^= self.0 << 17;
        self.0
    }
    fn below(&mut self, n: u64) -> u64 {
        (self.next() >> 11) % n
    }
    fn chance(&mut self, percent: u64) -> bool {
        self.below(100) < percent
    }
}

#[derive(Clone, Debug)]
enum Unit {
    Common(String, bool),
    Compound { absolute: bool, mnemonics: Vec<String>, query: bool, arg: Option<Vec<u8>> },
}

const MNEMONICS: &[&str] =
    &["A", "B", "C", "D", "a", "b", "A", "B", "A", "B", "A", "B", "S", "K", "S", "K", "LONG", "LONGNAME", "longname", "SH", "SHORT", "E"];

fn gen_unit(rng: &mut Rng) -> Unit {
    if rng.chance(15) {
        let name = ["*X", "*Y", "*Z", "*x"][rng.below(4) as usize];
        Unit::Common(name.to_string(), rng.chance(50))
    }
    else {
        let count = 1 + rng.below(4) as usize;
        let mnemonics: Vec<String> = (0..count)
            .map(|_| MNEMONICS[rng.below(MNEMONICS.len() as u64) as usize].to_string())
            .collect();
        let last = mnemonics.last().unwrap().clone();
        let arg = if last == "S" || last == "K" {
            let len = rng.below(6) as usize;
            let alphabet: &[u8] = if last == "S" { b"a;:\n*\"A #1" } else { b"a;:\n*\"'A#1" };
            Some((0..len).map(|_| alphabet[rng.below(alphabet.len() as u64) as usize]).collect())
        } else { None };
        let query = if arg.is_some() { false } else { rng.chance(30) };
        Unit::Compound { absolute: rng.chance(30), mnemonics, query, arg }
    }
}

fn ws(rng: &mut Rng, out: &mut Vec<u8>) {
    if rng.chance(15) {
        out.push(if rng.chance(50) { b' ' } else { b'\t' });
    }
}

fn render(rng: &mut Rng, units: &[Unit], trailing_semicolon: bool, out: &mut Vec<u8>) {
    for (i, unit) in units.iter().enumerate() {
        if i > 0 {
            out.push(b';');
        }
        ws(rng, out);
        match unit {
            Unit::Common(name, query) => {
                out.extend_from_slice(name.as_bytes());
                if *query {
                    out.push(b'?');
                }
            }
            Unit::Compound { absolute, mnemonics, query, arg } => {
                if *absolute {
                    out.push(b':');
                }
                for (j, m) in mnemonics.iter().enumerate() {
                    if j > 0 {
                        out.push(b':');
                    }
                    out.extend_from_slice(m.as_bytes());
                }
                if *query {
                    out.push(b'?');
                }
                if let Some(arg) = arg {
                    out.push(b' ');
                    if mnemonics.last().unwrap() == "S" {
                        out.push(b'\'');
                        out.extend_from_slice(arg);
                        out.push(b'\'');
                    } else {
                        out.extend_from_slice(format!("#1{}", arg.len()).as_bytes());
                        out.extend_from_slice(arg);
                    }
                }
            }
        }
        ws(rng, out);
    }
    if trailing_semicolon && !units.is_empty() {
        out.push(b';');
        ws(rng, out);
    }
    if rng.chance(20) {
        out.push(b'\r');
    }
    out.push(b'\n');
}

/// Reference semantics of the property.
fn reference(model: &Model, units: &[Unit], log: &mut Vec<usize>, errors: &mut usize, out: &mut Vec<u8>) {
    let mut path: Vec<String> = Vec::new();
    for unit in units {
        let (full, query, new_path) = match unit {
            Unit::Common(name, query) => (vec![name.to_uppercase()], *query, None),
            Unit::Compound { absolute, mnemonics, query, .. } => {
                let mut full = if *absolute { Vec::new() } else { path.clone() };
                full.extend(mnemonics.iter().map(|m| m.to_uppercase()));
                let new_path = full[..full.len() - 1].to_vec();
                (full, *query, Some(new_path))
            }
        };
        if !model.prefixes.contains(&full) {
            // Undefined node: the rest of the message is discarded.
            *errors += 1;
            return;
        }
        if let Some(new_path) = new_path {
            path = new_path;
        }
        match model.handlers.get(&(full, query)) {
            Some(id) => {
                log.push(*id);
                if let Unit::Compound { arg: Some(arg), .. } = unit {
                    log.push(1000 + arg.len());
                }
                if query {
                    out.extend_from_slice(format!("{id}\n").as_bytes());
                }
            }
            None => *errors += 1,
        }
    }
}

struct Script {
    data: Vec<u8>,
    pos: usize,
    rng: Rng,
    written: Vec<u8>,
}

impl Adapter for Script {
    type Error = ();

    async fn read(&mut self, dst: &mut [u8]) -> Result<usize, ()> {
        if self.pos >= self.data.len() {
            return Err(());
        }
        let max = (self.data.len() - self.pos).min(dst.len());
        let count = match self.rng.below(4) {
            0 => 0,
            1 => 1.min(max),
            2 => (self.rng.below(8) as usize).min(max),
            _ => max,
        };
        dst[..count].copy_from_slice(&self.data[self.pos..self.pos + count]);
        self.pos += count;
        // Handlers may suspend.
        tokio::task::yield_now().await;
        Ok(count)
    }

    async fn write(&mut self, src: &[u8]) -> Result<(), ()> {
        self.written.extend_from_slice(src);
        Ok(())
    }

    async fn flush(&mut self) -> Result<(), ()> {
        Ok(())
    }
}

#[tokio::test]
async fn differential() {
    let model = model();
    let mut rng = Rng(0x9E3779B97F4A7C15);
    let mut executed = 0usize;

    for round in 0..30000 {
        let message_count = 1 + rng.below(4) as usize;
        let mut input = Vec::new();
        let mut exp_log = Vec::new();
        let mut exp_errors = 0;
        let mut exp_out = Vec::new();
        for _ in 0..message_count {
            let unit_count = rng.below(5) as usize;
            let units: Vec<Unit> = (0..unit_count).map(|_| gen_unit(&mut rng)).collect();
            let trailing = rng.chance(20);
            render(&mut rng, &units, trailing, &mut input);
            reference(&model, &units, &mut exp_log, &mut exp_errors, &mut exp_out);
        }
        executed += exp_log.len();

        // run() on the whole input
        let mut dev = Dev::default();
        let mut out: heapless::Vec<u8, 1024> = heapless::Vec::new();
        let rest = dev.run(&input, &mut out).await;
        assert!(rest.is_empty());
        assert_eq!(
            (&dev.log, dev.errors, &out.to_vec()),
            (&exp_log, exp_errors, &exp_out),
            "run round {round}: {:?}",
            String::from_utf8_lossy(&input)
        );

        // process() with random chunking
        let mut dev = Dev::default();
        let mut adapter =
            Script { data: input.clone(), pos: 0, rng: Rng(rng.next() | 1), written: Vec::new() };
        let _ = dev.process::<256, _>(&mut adapter).await;
        assert_eq!(
            (&dev.log, dev.errors, &adapter.written),
            (&exp_log, exp_errors, &exp_out),
            "process round {round}: {:?}",
            String::from_utf8_lossy(&input)
        );
    }
    println!("executed units: {executed}");
}


fn gen_garbage(rng: &mut Rng, out: &mut Vec<u8>) {
    let alphabet: &[u8] = b"##1239AB:;; *?,'\"SK\n";
    let len = 1 + rng.below(8) as usize;
    for _ in 0..len {
        out.push(alphabet[rng.below(alphabet.len() as u64) as usize]);
    }
    out.push(b'\n');
}

/// process() against run() on the whole input, with garbage between the messages.
#[tokio::test]
async fn process_vs_run() {
    let mut rng = Rng(0xDEADBEEFCAFEF00D);
    let mut found = 0;
    for round in 0..200000 {
        let message_count = 1 + rng.below(4) as usize;
        let mut input = Vec::new();
        for _ in 0..message_count {
            if rng.chance(40) {
                gen_garbage(&mut rng, &mut input);
            }
            else {
                let unit_count = rng.below(4) as usize;
                let units: Vec<Unit> = (0..unit_count).map(|_| gen_unit(&mut rng)).collect();
                let trailing = rng.chance(20);
                render(&mut rng, &units, trailing, &mut input);
            }
        }

        let mut dev = Dev::default();
        let mut out: heapless::Vec<u8, 1024> = heapless::Vec::new();
        let rest = dev.run(&input, &mut out).await.len();

        let mut pdev = Dev::default();
        let mut adapter =
            Script { data: input.clone(), pos: 0, rng: Rng(rng.next() | 1), written: Vec::new() };
        let _ = pdev.process::<256, _>(&mut adapter).await;
        if rest == 0 && (&dev.log, &out.to_vec()) != (&pdev.log, &adapter.written) {
            found += 1;
            if found < 15 {
                println!(
                    "round {round}: {:?}\n   run: {:?} {}\n   process: {:?} {}",
                    String::from_utf8_lossy(&input), dev.log, dev.errors, pdev.log, pdev.errors
                );
            }
        }
    }
    println!("found {found}");
}
