//! C02 bug 1: a relative unit of a compound message is resolved against the ROOT instead of
//! against the path of the preceding unit, depending on the (faulty) message sent before it.
//!
//! `Interface::process` only checks the FIRST message of the data it hands to `run` for
//! completeness. A newline that was first judged "not a terminator" (the parser ran out of data
//! inside the header of a block, `#31\n`) is judged a terminator once more data has arrived
//! (the length field `1\nO` is not a number: the message is faulty and ends at that newline).
//! `run` is then given `<faulty message>\n<first part of the next message>`, executes the first
//! units of the next message, runs out of data inside a string that contains a newline, and
//! returns. The rest of that message is executed later by a fresh `run` that starts at the
//! root, so the header path built by the already executed units is lost.
use microscpi::{self as scpi, Adapter, ErrorHandler, Interface};

#[derive(Default)]
struct Device {
    log: Vec<String>,
    errors: Vec<scpi::Error>,
}

impl ErrorHandler for Device {
    fn handle_error(&mut self, error: scpi::Error) {
        self.errors.push(error);
    }
}

#[scpi::interface]
impl Device {
    #[scpi(cmd = "OUTPut:STATe")]
    async fn output_state(&mut self, on: bool) -> Result<(), scpi::Error> {
        self.log.push(format!("OUTPut:STATe {on}"));
        Ok(())
    }

    #[scpi(cmd = "OUTPut:LABel")]
    async fn output_label(&mut self, label: &str) -> Result<(), scpi::Error> {
        self.log.push(format!("OUTPut:LABel {label:?}"));
        Ok(())
    }

    // The same mnemonic exists at the root as well.
    #[scpi(cmd = "LABel")]
    async fn label(&mut self, label: &str) -> Result<(), scpi::Error> {
        self.log.push(format!("LABel {label:?}"));
        Ok(())
    }

    // This mnemonic exists below OUTPut only.
    #[scpi(cmd = "OUTPut:NAME")]
    async fn output_name(&mut self, name: &str) -> Result<(), scpi::Error> {
        self.log.push(format!("OUTPut:NAME {name:?}"));
        Ok(())
    }

    #[scpi(cmd = "DATA")]
    async fn data(&mut self, data: &[u8]) -> Result<(), scpi::Error> {
        self.log.push(format!("DATA {data:?}"));
        Ok(())
    }
}

/// Delivers the scripted chunks one `read` at a time and ends `process` with an error afterwards.
struct Script {
    chunks: Vec<Vec<u8>>,
    next: usize,
    written: Vec<u8>,
}

impl Adapter for Script {
    type Error = ();

    async fn read(&mut self, dst: &mut [u8]) -> Result<usize, ()> {
        let Some(chunk) = self.chunks.get_mut(self.next) else {
            return Err(());
        };
        let count = chunk.len().min(dst.len());
        dst[..count].copy_from_slice(&chunk[..count]);
        chunk.drain(..count);
        if chunk.is_empty() {
            self.next += 1;
        }
        Ok(count)
    }

    async fn write(&mut self, src: &[u8]) -> Result<(), ()> {
        self.written.extend_from_slice(src);
        Ok(())
    }

    async fn flush(&mut self) -> Result<(), ()> {
        Ok(())
    }
}

async fn drive(chunks: Vec<Vec<u8>>) -> Device {
    let mut device = Device::default();
    let mut adapter = Script { chunks, next: 0, written: Vec::new() };
    let _ = device.process::<128, _>(&mut adapter).await;
    device
}

/// The compound message under test: the second unit is relative to `OUTPut`.
const MESSAGE: &[u8] = b"OUTP:STAT ON;LAB 'a\nb'\n";
/// A faulty message: the block header announces 3 length digits but only one follows.
const FAULTY: &[u8] = b"DATA #31\n";

fn expected() -> Vec<String> {
    vec!["OUTPut:STATe true".to_string(), "OUTPut:LABel \"a\\nb\"".to_string()]
}

#[tokio::test]
async fn message_alone_is_resolved_correctly() {
    // Control: on its own the message selects OUTPut:STATe and OUTPut:LABel.
    let device = drive(vec![MESSAGE.to_vec()]).await;
    assert_eq!(device.log, expected());
    assert!(device.errors.is_empty());
}

#[tokio::test]
async fn relative_unit_after_faulty_message_single_read() {
    let mut input = FAULTY.to_vec();
    input.extend_from_slice(MESSAGE);
    let device = drive(vec![input]).await;

    // The faulty message is reported ...
    assert_eq!(device.errors.len(), 1, "errors: {:?}", device.errors);
    // ... and the handlers the next message selects do not depend on it.
    assert_eq!(device.log, expected());
}

#[tokio::test]
async fn relative_unit_after_faulty_message_bytewise() {
    let mut input = FAULTY.to_vec();
    input.extend_from_slice(MESSAGE);
    let device = drive(input.iter().map(|b| vec![*b]).collect()).await;

    assert_eq!(device.errors.len(), 1, "errors: {:?}", device.errors);
    assert_eq!(device.log, expected());
}

#[tokio::test]
async fn relative_unit_after_faulty_message_one_message_per_read() {
    let device = drive(vec![FAULTY.to_vec(), MESSAGE.to_vec()]).await;

    assert_eq!(device.errors.len(), 1, "errors: {:?}", device.errors);
    assert_eq!(device.log, expected());
}

#[tokio::test]
async fn relative_unit_after_faulty_message_is_not_found_at_all() {
    // Same thing with a mnemonic that only exists below OUTPut: the unit is not executed at
    // all and an additional "undefined header" error is reported.
    let message = b"OUTP:STAT ON;NAME 'a\nb'\n";
    let expected =
        vec!["OUTPut:STATe true".to_string(), "OUTPut:NAME \"a\\nb\"".to_string()];

    let alone = drive(vec![message.to_vec()]).await;
    assert_eq!(alone.log, expected);
    assert!(alone.errors.is_empty());

    // Another faulty message that is first taken for incomplete: an undefined header followed
    // by the beginning of a block.
    let mut input = b"FOO #31\n".to_vec();
    input.extend_from_slice(message);
    let device = drive(vec![input]).await;
    assert_eq!(device.log, expected, "errors: {:?}", device.errors);
    assert_eq!(device.errors.len(), 1, "errors: {:?}", device.errors);
}
