//! C02 bug 2 (lower confidence, see BUGS.md): `Interface::run` loses the header path when a
//! program message reaches it in two pieces.
//!
//! `run` documents that "any remaining input that was not parsed is returned", i.e. the caller
//! is expected to call `run` again with the returned rest once more data has arrived. `run`
//! executes the complete units at the front of an unterminated message right away and returns
//! the rest from the first incomplete unit on. The next call starts at the root, so the rest of
//! the SAME program message is resolved as if it were a new message.
use microscpi::{self as scpi, ErrorHandler, Interface};

#[derive(Default)]
struct Device {
    log: Vec<String>,
    errors: Vec<scpi::Error>,
}

impl ErrorHandler for Device {
    fn handle_error(&mut self, error: scpi::Error) {
        self.errors.push(error);
    }
}

#[scpi::interface]
impl Device {
    #[scpi(cmd = "OUTPut:STATe")]
    async fn output_state(&mut self, on: bool) -> Result<(), scpi::Error> {
        self.log.push(format!("OUTPut:STATe {on}"));
        Ok(())
    }

    #[scpi(cmd = "OUTPut:LEVel")]
    async fn output_level(&mut self, level: u32) -> Result<(), scpi::Error> {
        self.log.push(format!("OUTPut:LEVel {level}"));
        Ok(())
    }

    // The same mnemonic exists at the root as well.
    #[scpi(cmd = "LEVel")]
    async fn level(&mut self, level: u32) -> Result<(), scpi::Error> {
        self.log.push(format!("LEVel {level}"));
        Ok(())
    }
}

/// Feeds `input` to `run` in the given pieces the way the documentation of `run` suggests: the
/// rest `run` returns is kept and passed again together with the next piece.
async fn feed(pieces: &[&[u8]]) -> Device {
    let mut device = Device::default();
    let mut output: heapless::Vec<u8, 64> = heapless::Vec::new();
    let mut pending: Vec<u8> = Vec::new();
    for piece in pieces {
        pending.extend_from_slice(piece);
        let rest = device.run(&pending, &mut output).await.to_vec();
        pending = rest;
    }
    assert!(pending.is_empty());
    device
}

#[tokio::test]
async fn message_in_one_piece() {
    let device = feed(&[b"OUTP:STAT ON;LEV 5\n"]).await;
    assert_eq!(device.log, ["OUTPut:STATe true", "OUTPut:LEVel 5"]);
}

#[tokio::test]
async fn message_in_two_pieces() {
    // The terminator arrives later than the rest of the message.
    let device = feed(&[b"OUTP:STAT ON;LEV 5", b"\n"]).await;
    assert!(device.errors.is_empty(), "errors: {:?}", device.errors);
    assert_eq!(device.log, ["OUTPut:STATe true", "OUTPut:LEVel 5"]);
}
