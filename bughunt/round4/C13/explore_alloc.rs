//! Exploratory: count heap allocations made while the library parses, dispatches and
//! formats into fixed-capacity buffers.
use std::alloc::{GlobalAlloc, Layout, System};
use std::cell::Cell;
use std::future::Future;
use std::pin::Pin;
use std::task::{Context, Poll, RawWaker, RawWakerVTable, Waker};

use microscpi::{
    self as scpi, Adapter, Arbitrary, Characters, ErrorCommands, ErrorQueue, Interface,
    StandardCommands, StaticErrorQueue,
};

thread_local! {
    static COUNTING: Cell<bool> = const { Cell::new(false) };
    static ALLOCS: Cell<usize> = const { Cell::new(0) };
}

struct Counting;

fn note() {
    let _ = COUNTING.try_with(|c| {
        if c.get() {
            let _ = ALLOCS.try_with(|a| a.set(a.get() + 1));
        }
    });
}

unsafe impl GlobalAlloc for Counting {
    unsafe fn alloc(&self, l: Layout) -> *mut u8 {
        note();
        System.alloc(l)
    }
    unsafe fn alloc_zeroed(&self, l: Layout) -> *mut u8 {
        note();
        System.alloc_zeroed(l)
    }
    unsafe fn realloc(&self, p: *mut u8, l: Layout, n: usize) -> *mut u8 {
        note();
        System.realloc(p, l, n)
    }
    unsafe fn dealloc(&self, p: *mut u8, l: Layout) {
        System.dealloc(p, l)
    }
}

#[global_allocator]
static GLOBAL: Counting = Counting;

fn counted<T>(f: impl FnOnce() -> T) -> (T, usize) {
    ALLOCS.with(|a| a.set(0));
    COUNTING.with(|c| c.set(true));
    let r = f();
    COUNTING.with(|c| c.set(false));
    (r, ALLOCS.with(|a| a.get()))
}

fn block_on<F: Future>(f: F) -> F::Output {
    fn no(_: *const ()) {}
    fn cl(_: *const ()) -> RawWaker {
        RawWaker::new(core::ptr::null(), &VT)
    }
    static VT: RawWakerVTable = RawWakerVTable::new(cl, no, no, no);
    let w = unsafe { Waker::from_raw(RawWaker::new(core::ptr::null(), &VT)) };
    let mut cx = Context::from_waker(&w);
    let mut f = core::pin::pin!(f);
    loop {
        if let Poll::Ready(v) = f.as_mut().poll(&mut cx) {
            return v;
        }
    }
}

struct Yield(u32);
impl Future for Yield {
    type Output = ();
    fn poll(mut self: Pin<&mut Self>, cx: &mut Context<'_>) -> Poll<()> {
        if self.0 == 0 {
            Poll::Ready(())
        }
        else {
            self.0 -= 1;
            cx.waker().wake_by_ref();
            Poll::Pending
        }
    }
}

pub struct Dev {
    errors: StaticErrorQueue<4>,
    ints: [i32; 5],
}

impl ErrorCommands for Dev {
    fn error_queue(&mut self) -> &mut impl ErrorQueue {
        &mut self.errors
    }
}
impl StandardCommands for Dev {}

static LONG: &str = "0123456789012345678901234567890123456789012345678901234567890123456789012345678901234567890123456789012345678901234567890123456789012345678901234567890123456789012345678901234567890123456789012345678901234567890123456789012345678901234567890123456789012345678901234567890123456789";

#[scpi::interface(StandardCommands, ErrorCommands)]
impl Dev {
    #[scpi(cmd = "*IDN?")]
    async fn idn(&mut self) -> Result<&str, scpi::Error> {
        Ok("MICROSCPI,TEST,1,1.0")
    }
    #[scpi(cmd = "*RST")]
    async fn rst(&mut self) -> Result<(), scpi::Error> {
        Yield(2).await;
        Ok(())
    }
    #[scpi(cmd = "*OPC?")]
    fn opc(&mut self) -> Result<bool, scpi::Error> {
        Ok(true)
    }
    #[scpi(cmd = "U8?")]
    async fn u8q(&mut self, v: u8) -> Result<u8, scpi::Error> {
        Ok(v)
    }
    #[scpi(cmd = "I8?")]
    async fn i8q(&mut self, v: i8) -> Result<i8, scpi::Error> {
        Ok(v)
    }
    #[scpi(cmd = "U16?")]
    async fn u16q(&mut self, v: u16) -> Result<u16, scpi::Error> {
        Ok(v)
    }
    #[scpi(cmd = "I16?")]
    async fn i16q(&mut self, v: i16) -> Result<i16, scpi::Error> {
        Ok(v)
    }
    #[scpi(cmd = "U32?")]
    async fn u32q(&mut self, v: u32) -> Result<u32, scpi::Error> {
        Ok(v)
    }
    #[scpi(cmd = "I32?")]
    async fn i32q(&mut self, v: i32) -> Result<i32, scpi::Error> {
        Ok(v)
    }
    #[scpi(cmd = "U64?")]
    async fn u64q(&mut self, v: u64) -> Result<u64, scpi::Error> {
        Ok(v)
    }
    #[scpi(cmd = "I64?")]
    async fn i64q(&mut self, v: i64) -> Result<i64, scpi::Error> {
        Ok(v)
    }
    #[scpi(cmd = "USIZe?")]
    async fn usizeq(&mut self, v: usize) -> Result<usize, scpi::Error> {
        Ok(v)
    }
    #[scpi(cmd = "ISIZe?")]
    async fn isizeq(&mut self, v: isize) -> Result<isize, scpi::Error> {
        Ok(v)
    }
    #[scpi(cmd = "F32?")]
    async fn f32q(&mut self, v: f32) -> Result<f32, scpi::Error> {
        Yield(1).await;
        Ok(v)
    }
    #[scpi(cmd = "F64?")]
    async fn f64q(&mut self, v: f64) -> Result<f64, scpi::Error> {
        Ok(v)
    }
    #[scpi(cmd = "F64:SQuare?")]
    async fn f64sq(&mut self, v: f64) -> Result<f64, scpi::Error> {
        Ok(v * v * v * v)
    }
    #[scpi(cmd = "F64:INVerse?")]
    async fn f64inv(&mut self, v: f64) -> Result<f64, scpi::Error> {
        Ok(1.0 / v)
    }
    #[scpi(cmd = "BOOL?")]
    async fn boolq(&mut self, v: bool) -> Result<bool, scpi::Error> {
        Ok(v)
    }
    #[scpi(cmd = "STRing?")]
    async fn strq(&mut self, v: &str) -> Result<heapless::String<32>, scpi::Error> {
        let mut s = heapless::String::new();
        for c in v.chars() {
            if s.push(c).is_err() {
                break;
            }
        }
        Ok(s)
    }
    #[scpi(cmd = "STRing:LENgth?")]
    fn strlen(&mut self, v: &str) -> Result<usize, scpi::Error> {
        Ok(v.len())
    }
    #[scpi(cmd = "BLOCk?")]
    async fn blockq(&mut self, v: &[u8]) -> Result<usize, scpi::Error> {
        Ok(v.len())
    }
    #[scpi(cmd = "BLOCk:DATA?")]
    async fn blockdata(&mut self, n: usize) -> Result<Arbitrary<'_>, scpi::Error> {
        let n = n.min(LONG.len());
        Ok(Arbitrary(&LONG.as_bytes()[..n]))
    }
    #[scpi(cmd = "CHARacters?")]
    async fn chars(&mut self) -> Result<Characters<'_>, scpi::Error> {
        Ok(Characters("DEFault"))
    }
    #[scpi(cmd = "TUPle:TWO?")]
    async fn tup2(&mut self, a: i8, b: bool) -> Result<(i8, bool), scpi::Error> {
        Ok((a, b))
    }
    #[scpi(cmd = "TUPle:THRee?")]
    async fn tup3(&mut self) -> Result<(u8, &str, f32), scpi::Error> {
        Ok((1, "a\"b", 0.5))
    }
    #[scpi(cmd = "TUPle:FOUR?")]
    async fn tup4(&mut self) -> Result<(u8, Characters<'_>, f64, scpi::Error), scpi::Error> {
        Ok((1, Characters("X"), f64::MAX, scpi::Error::QueueOverflow))
    }
    #[scpi(cmd = "SLICe?")]
    async fn slice(&mut self) -> Result<&[i32], scpi::Error> {
        Ok(&self.ints[..])
    }
    #[scpi(cmd = "HVEC?")]
    async fn hvec(&mut self) -> Result<heapless::Vec<f32, 4>, scpi::Error> {
        Ok(heapless::Vec::from_slice(&[f32::NAN, f32::INFINITY, f32::MIN_POSITIVE, -0.0]).unwrap())
    }
    #[scpi(cmd = "FAIL")]
    async fn fail(&mut self) -> Result<(), scpi::Error> {
        Err(scpi::Error::Custom(123, "custom"))
    }
    #[scpi(cmd = "FAIL?")]
    async fn failq(&mut self) -> Result<u8, scpi::Error> {
        Yield(1).await;
        Err(scpi::Error::HardwareError)
    }
    #[scpi(cmd = "BIG?")]
    async fn big(&mut self) -> Result<&str, scpi::Error> {
        Ok(LONG)
    }
    #[scpi(cmd = "QUOTe?")]
    async fn quote(&mut self) -> Result<&str, scpi::Error> {
        Ok("\"\"a\"\n\"")
    }
    #[scpi(cmd = "SLOW?")]
    async fn slow(&mut self, n: u8) -> Result<u8, scpi::Error> {
        Yield(n as u32).await;
        Ok(n)
    }
    #[scpi(cmd = "TEN")]
    #[allow(clippy::too_many_arguments)]
    async fn ten(
        &mut self, _a: u8, _b: u8, _c: u8, _d: u8, _e: u8, _f: u8, _g: u8, _h: u8, _i: u8, _j: u8,
    ) -> Result<(), scpi::Error> {
        Ok(())
    }
    #[scpi(cmd = "[SYSTem]:TeST:A")]
    async fn ta(&mut self) -> Result<(), scpi::Error> {
        Ok(())
    }
    #[scpi(cmd = "[SYSTem]:TeST:A?")]
    async fn taq(&mut self) -> Result<u8, scpi::Error> {
        Ok(7)
    }
    #[scpi(cmd = "[OPTional]:[ALSo]:LEAF?")]
    async fn leaf(&mut self) -> Result<u8, scpi::Error> {
        Ok(9)
    }
    #[scpi(cmd = "CMDReturns")]
    async fn cmdreturns(&mut self) -> Result<&str, scpi::Error> {
        Ok("dropped")
    }
}

fn dev() -> Dev {
    Dev {
        errors: StaticErrorQueue::new(),
        ints: [1, -2, 3, i32::MIN, i32::MAX],
    }
}

struct Rng(u64);
impl Rng {
    fn next(&mut self) -> u64 {
        self.0 ^= self.0 << 13;
        self.0 ^= self.0 >> 7;
        self.0 ^= self.0 << 17;
        self.0
    }
    fn below(&mut self, n: usize) -> usize {
        (self.next() % n as u64) as usize
    }
    fn pick<'a, T: ?Sized>(&mut self, items: &[&'a T]) -> &'a T {
        items[self.below(items.len())]
    }
}

const HEADERS: &[&[u8]] = &[
    b"*IDN?", b"*RST", b"*OPC?", b"*idn?", b"*XYZ", b"U8?", b"I8?", b"U16?", b"I16?", b"U32?",
    b"I32?", b"U64?", b"I64?", b"USIZ?", b"ISIZE?", b"F32?", b"F64?", b"F64:SQ?", b"F64:INV?",
    b"BOOL?", b"STR?", b"STRING?", b"STR:LEN?", b":STR:LENGTH?", b"BLOC?", b"BLOCK:DATA?",
    b"CHAR?", b"TUP:TWO?", b"TUPLE:THR?", b"TUP:FOUR?", b"SLIC?", b"HVEC?", b"FAIL", b"FAIL?",
    b"BIG?", b"QUOT?", b"SLOW?", b"TEN", b"SYST:TST:A", b"TST:A?", b"TEST:A", b":SYSTEM:TEST:A?",
    b"LEAF?", b"OPT:LEAF?", b"ALS:LEAF?", b"OPT:ALSO:LEAF?", b"CMDR", b"CMDR?", b"SYST:ERR?",
    b"SYST:ERR:NEXT?", b"SYST:ERR:COUN?", b"SYST:VERS?", b"ERR?", b"COUN?", b"NEXT?", b"SQ?",
    b"INV?", b"LEN?", b"DATA?", b"TWO?", b"A", b"A?", b"NOPE", b"NOPE:X?", b"SYST:", b":", b"::A",
    b"SYST : ERR ?", b"SYST: ERR?", b"U8", b"1U8?", b"U_8?", b"", b"?", b"*", b"*?",
];

const ARGS: &[&[u8]] = &[
    b"0", b"1", b"-1", b"+1", b"255", b"256", b"-128", b"-129", b"65535", b"65536", b"4294967295",
    b"4294967296", b"18446744073709551615", b"18446744073709551616", b"-9223372036854775808",
    b"99999999999999999999999999999999999999999", b"1.5", b".5", b"5.", b"-.5e3", b"1e308",
    b"1E-400", b"1e99999999999999999999", b"1e", b"1e+", b"+", b"-", b".", b"1.2.3", b"0x10",
    b"#HFF", b"#hff", b"#H", b"#HG", b"#B101", b"#B2", b"#Q777", b"#Q8", b"#HFFFFFFFFFFFFFFFFF",
    b"ON", b"OFF", b"on", b"TRUE", b"false", b"MAYBE", b"DEFault", b"a_1", b"'abc'", b"\"abc\"",
    b"''", b"\"\"", b"'a\"b'", b"\"a'b\"", b"'a''b'", b"\"a\"\"b\"", b"'a;b'", b"'a\nb'", b"\"a,b\"",
    b"'unterminated", b"\"unterminated", b"'\xff\xfe'", b"#10", b"#13abc", b"#15a\nb;c", b"#213abcdefghijklm",
    b"#15ab", b"#0", b"#", b"#1", b"#1x", b"#2 5", b"#2+3abc", b"#9000000001x", b"#9999999999",
    b"#3001a", b"@", b"(1,2)", b"1 V", b"1,", b",", b",1", b"1,,2",
];

fn gen_message(rng: &mut Rng, out: &mut Vec<u8>) {
    let units = 1 + rng.below(4);
    for u in 0..units {
        if u > 0 {
            out.extend_from_slice(rng.pick(&[&b";"[..], b" ; ", b";:", b"; :", b";;", b";\t"]));
        }
        if rng.below(8) == 0 {
            out.extend_from_slice(rng.pick(&[&b" "[..], b"\t", b"\r", b"  "]));
        }
        out.extend_from_slice(rng.pick(HEADERS));
        let nargs = match rng.below(10) {
            0..=3 => 0,
            4..=7 => 1,
            8 => 2,
            _ => rng.below(13),
        };
        for a in 0..nargs {
            if a == 0 {
                out.extend_from_slice(rng.pick(&[&b" "[..], b" ", b" ", b"  ", b"\t", b""]));
            }
            else {
                out.extend_from_slice(rng.pick(&[&b","[..], b",", b", ", b" , ", b" ", b";"]));
            }
            out.extend_from_slice(rng.pick(ARGS));
        }
    }
    out.extend_from_slice(rng.pick(&[&b"\n"[..], b"\n", b"\n", b"\r\n", b" \n", b"\n\n", b""]));
}

fn gen_input(rng: &mut Rng) -> Vec<u8> {
    let mut out = Vec::new();
    let messages = 1 + rng.below(3);
    for _ in 0..messages {
        gen_message(rng, &mut out);
    }
    // Byte-level mutation.
    if rng.below(4) == 0 && !out.is_empty() {
        for _ in 0..1 + rng.below(3) {
            if out.is_empty() {
                break;
            }
            let pos = rng.below(out.len());
            match rng.below(3) {
                0 => out[pos] = rng.next() as u8,
                1 => {
                    out.remove(pos);
                }
                _ => out.insert(pos, *rng.pick(&[&b'\n', &b';', &b':', &b'"', &b'\'', &b'#', &b',', &b'?', &b'*', &0u8, &0xffu8])),
            }
        }
    }
    if rng.below(3) != 0 && out.last() != Some(&b'\n') {
        out.push(b'\n');
    }
    out
}

fn run_with<const N: usize>(input: &[u8]) -> usize {
    let mut d = dev();
    let mut out: heapless::Vec<u8, N> = heapless::Vec::new();
    let ((), allocs) = counted(|| {
        let rest = block_on(d.run(input, &mut out));
        core::hint::black_box(rest);
        // Drain the error queue through the library as well.
        out.clear();
        let _ = block_on(d.run(b"SYST:ERR?;ERR?;ERR?;ERR?;COUN?\n", &mut out));
    });
    allocs
}

struct Script<'a> {
    data: &'a [u8],
    pos: usize,
    chunk: usize,
    empty_every: usize,
    reads: usize,
    written: usize,
    idle: usize,
}

impl Adapter for Script<'_> {
    type Error = ();
    async fn read(&mut self, dst: &mut [u8]) -> Result<usize, ()> {
        self.reads += 1;
        if self.pos >= self.data.len() {
            return Err(());
        }
        if dst.is_empty() {
            self.idle += 1;
            if self.idle > 4 {
                return Err(());
            }
            return Ok(0);
        }
        if self.empty_every != 0 && self.reads % self.empty_every == 0 {
            return Ok(0);
        }
        if self.reads % 3 == 0 {
            Yield(1).await;
        }
        let n = self.chunk.min(dst.len()).min(self.data.len() - self.pos);
        dst[..n].copy_from_slice(&self.data[self.pos..self.pos + n]);
        self.pos += n;
        Ok(n)
    }
    async fn write(&mut self, src: &[u8]) -> Result<(), ()> {
        self.written += src.len();
        Ok(())
    }
    async fn flush(&mut self) -> Result<(), ()> {
        Ok(())
    }
}

fn process_with<const N: usize>(input: &[u8], chunk: usize, empty_every: usize) -> usize {
    let mut d = dev();
    let mut script = Script {
        data: input,
        pos: 0,
        chunk,
        empty_every,
        reads: 0,
        written: 0,
        idle: 0,
    };
    let (_, allocs) = counted(|| {
        let _ = block_on(d.process::<N, _>(&mut script));
    });
    allocs
}

fn check(input: &[u8]) {
    let shown = String::from_utf8_lossy(input).into_owned();
    macro_rules! runs {
        ($($n:literal),*) => {$(
            let allocs = run_with::<$n>(input);
            assert_eq!(allocs, 0, "run, capacity {}: {} allocations for {:?}", $n, allocs, shown);
        )*};
    }
    runs!(0, 1, 2, 3, 4, 5, 7, 8, 16, 21, 22, 23, 24, 64, 302, 303, 304, 1024);
    macro_rules! procs {
        ($($n:literal),*) => {$(
            for (chunk, empty_every) in [(1usize, 0usize), (2, 0), (3, 2), (7, 0), (usize::MAX, 0), (5, 3)] {
                let allocs = process_with::<$n>(input, chunk, empty_every);
                assert_eq!(allocs, 0, "process::<{}>, chunk {}: {} allocations for {:?}", $n, chunk, allocs, shown);
            }
        )*};
    }
    procs!(1, 2, 3, 8, 16, 24, 40, 64, 400);
}

#[test]
fn fixed_corpus() {
    let corpus: &[&[u8]] = &[
        b"*IDN?\n",
        b"*IDN?;*OPC?;SYST:ERR?;:SYST:VERS?\n",
        b"F64? 1e308;F64:SQ? 1e77;F64:INV? 1e308;F64? 1E-400;F32? 3.4028235e38\n",
        b"TUP:FOUR?;HVEC?;SLIC?;QUOT?;BIG?;BLOC:DATA? 300\n",
        b"BLOC? #15a\nb;c;STR? 'x\ny';STR? \"a\"\"b\"\n",
        b"TEN 1,2,3,4,5,6,7,8,9,10;TEN 1,2,3,4,5,6,7,8,9,10,11;TEN 1,2,3,4,5,6,7,8,9,10,11,12,13\n",
        b"FAIL;FAIL?;NOPE;*XYZ;U8? 256;U8? 'a';BOOL? 2\n",
        b"NOPE\nNOPE\nNOPE\nNOPE\nNOPE\nNOPE\nSYST:ERR?\n",
        b"U8? #9000000001x\n",
        b"U8? #9999999999\n",
        b"U8? #9123\n45678\n",
        b"\n\n\n;\n;;\n",
        b"SLOW? 200;SLOW? 3\n",
        b"",
        b"\xff\xfe\n",
        b"STR? '\xff'\n",
        b"CMDR;LEAF?;OPT:LEAF?;ALSO:LEAF?;TST:A?;A?\n",
    ];
    for input in corpus {
        check(input);
    }
}

#[test]
fn random_corpus() {
    let scale: usize = std::env::var("EXPLORE_SCALE").ok().and_then(|s| s.parse().ok()).unwrap_or(1);
    let seed: u64 = std::env::var("EXPLORE_SEED").ok().and_then(|s| s.parse().ok()).unwrap_or(0x9E3779B97F4A7C15);
    let mut rng = Rng(seed);
    for _ in 0..6000 * scale {
        let input = gen_input(&mut rng);
        check(&input);
    }
}

#[test]
fn random_bytes() {
    let scale: usize = std::env::var("EXPLORE_SCALE").ok().and_then(|s| s.parse().ok()).unwrap_or(1);
    let seed: u64 = std::env::var("EXPLORE_SEED").ok().and_then(|s| s.parse().ok()).unwrap_or(0xD1B54A32D192ED03);
    let mut rng = Rng(seed);
    let alphabet = b"*IDN?U8 STR:LENBLOC#123456789'\";:,\n\n\n\t+-.eE@\x00\xff";
    for _ in 0..3000 * scale {
        let len = rng.below(40);
        let mut input = Vec::new();
        for _ in 0..len {
            input.push(alphabet[rng.below(alphabet.len())]);
        }
        check(&input);
    }
}

#[test]
fn harness_detects_allocation() {
    let (_, n) = counted(|| {
        let v: Vec<u8> = Vec::with_capacity(10);
        core::hint::black_box(v);
    });
    assert!(n > 0);
    let (r, n) = counted(|| std::panic::catch_unwind(|| panic!("x {}", 1)));
    assert!(r.is_err());
    assert!(n > 0, "panic allocates");
}
