#![no_std]
#![no_main]

use microscpi::{self as scpi, Interface, ErrorCommands, ErrorQueue, StandardCommands, StaticErrorQueue};

#[panic_handler]
fn panic(_: &core::panic::PanicInfo) -> ! { loop {} }

pub struct Dev { errors: StaticErrorQueue<4>, v: f64 }

impl ErrorCommands for Dev {
    fn error_queue(&mut self) -> &mut impl ErrorQueue { &mut self.errors }
}
impl StandardCommands for Dev {}

#[scpi::interface(StandardCommands, ErrorCommands)]
impl Dev {
    #[scpi(cmd = "*IDN?")]
    async fn idn(&mut self) -> Result<&str, scpi::Error> { Ok("a,b,c,d") }
    #[scpi(cmd = "VALue?")]
    async fn value(&mut self) -> Result<f64, scpi::Error> { Ok(self.v) }
    #[scpi(cmd = "VALue")]
    fn set_value(&mut self, v: f64) -> Result<(), scpi::Error> { self.v = v; Ok(()) }
    #[scpi(cmd = "BLOCk?")]
    async fn block(&mut self, data: &[u8]) -> Result<scpi::Arbitrary<'_>, scpi::Error> { let _ = data; Ok(scpi::Arbitrary(b"xyz")) }
    #[scpi(cmd = "LIST?")]
    async fn list(&mut self, a: u8, b: i64, c: bool, s: &str) -> Result<(u8, i64, bool, heapless::String<8>), scpi::Error> {
        let mut h = heapless::String::new(); let _ = h.push_str(s); Ok((a, b, c, h)) }
}

struct Ad { n: usize }
impl scpi::Adapter for Ad {
    type Error = ();
    async fn read(&mut self, dst: &mut [u8]) -> Result<usize, ()> {
        if self.n > 3 { return Err(()); }
        self.n += 1;
        let m = b"*IDN?;VAL 1.5;VAL?\n";
        let k = m.len().min(dst.len());
        dst[..k].copy_from_slice(&m[..k]);
        Ok(k)
    }
    async fn write(&mut self, src: &[u8]) -> Result<(), ()> { unsafe { core::ptr::read_volatile(&src[0]); } Ok(()) }
    async fn flush(&mut self) -> Result<(), ()> { Ok(()) }
}

fn block_on<F: core::future::Future>(f: F) -> F::Output {
    use core::task::{Context, Poll, RawWaker, RawWakerVTable, Waker};
    fn no(_: *const ()) {}
    fn cl(_: *const ()) -> RawWaker { RawWaker::new(core::ptr::null(), &VT) }
    static VT: RawWakerVTable = RawWakerVTable::new(cl, no, no, no);
    let w = unsafe { Waker::from_raw(RawWaker::new(core::ptr::null(), &VT)) };
    let mut cx = Context::from_waker(&w);
    let mut f = core::pin::pin!(f);
    loop { if let Poll::Ready(v) = f.as_mut().poll(&mut cx) { return v; } }
}

#[no_mangle]
pub extern "C" fn main(_argc: i32, _argv: *const *const u8) -> i32 {
    let mut d = Dev { errors: StaticErrorQueue::new(), v: 0.0 };
    let mut out: heapless::Vec<u8, 64> = heapless::Vec::new();
    let rest = block_on(d.run(b"*IDN?;VAL 2.5;VAL?;BLOC? #13abc;LIST? 1,-2,ON,'x';SYST:ERR?;:SYST:VERS?;SYST:ERR:COUN?\n", &mut out));
    let mut ad = Ad { n: 0 };
    let _ = block_on(d.process::<32, _>(&mut ad));
    (rest.len() + out.len()) as i32
}

#[link(name = "c")]
extern "C" {}

#[no_mangle]
pub extern "C" fn rust_eh_personality() {}
