use microscpi::{self as scpi, Adapter, ErrorHandler, Interface};

#[derive(Debug, Clone, PartialEq)]
enum Ev {
    Str(&'static str, Vec<String>),
    Blk(&'static str, Vec<Vec<u8>>),
    Mix(String, Vec<u8>, String),
    Plain(&'static str),
    Err(scpi::Error),
}

#[derive(Default)]
struct Dev {
    log: Vec<Ev>,
}

impl ErrorHandler for Dev {
    fn handle_error(&mut self, error: scpi::Error) {
        self.log.push(Ev::Err(error));
    }
}

#[scpi::interface]
impl Dev {
    #[scpi(cmd = "STR")]
    async fn str1(&mut self, a: &str) -> Result<(), scpi::Error> {
        self.log.push(Ev::Str("STR", vec![a.to_string()]));
        Ok(())
    }
    #[scpi(cmd = "S2")]
    async fn str2(&mut self, a: &str, b: &str) -> Result<(), scpi::Error> {
        tokio::task::yield_now().await;
        self.log.push(Ev::Str("S2", vec![a.to_string(), b.to_string()]));
        Ok(())
    }
    #[scpi(cmd = "BLK")]
    async fn blk1(&mut self, a: &[u8]) -> Result<(), scpi::Error> {
        self.log.push(Ev::Blk("BLK", vec![a.to_vec()]));
        Ok(())
    }
    #[scpi(cmd = "MIX")]
    async fn mix(&mut self, a: &str, b: &[u8], c: &str) -> Result<(), scpi::Error> {
        self.log.push(Ev::Mix(a.to_string(), b.to_vec(), c.to_string()));
        Ok(())
    }
    #[scpi(cmd = "SYSTem:[SUB]:STR")]
    fn sys_str(&mut self, a: &str) -> Result<(), scpi::Error> {
        self.log.push(Ev::Str("SYS:STR", vec![a.to_string()]));
        Ok(())
    }
    #[scpi(cmd = "SYSTem:[SUB]:BLK")]
    fn sys_blk(&mut self, a: &[u8]) -> Result<(), scpi::Error> {
        self.log.push(Ev::Blk("SYS:BLK", vec![a.to_vec()]));
        Ok(())
    }
    #[scpi(cmd = "SYSTem:PLAIN")]
    fn sys_plain(&mut self) -> Result<(), scpi::Error> {
        self.log.push(Ev::Plain("SYS:PLAIN"));
        Ok(())
    }
    #[scpi(cmd = "PLAIN")]
    fn plain(&mut self) -> Result<(), scpi::Error> {
        self.log.push(Ev::Plain("PLAIN"));
        Ok(())
    }
    #[scpi(cmd = "*CLS")]
    fn cls(&mut self) -> Result<(), scpi::Error> {
        self.log.push(Ev::Plain("*CLS"));
        Ok(())
    }
    #[scpi(cmd = "*STR")]
    fn cstr(&mut self, a: &str) -> Result<(), scpi::Error> {
        self.log.push(Ev::Str("*STR", vec![a.to_string()]));
        Ok(())
    }
    #[scpi(cmd = "FAIL")]
    fn fail(&mut self, a: &str) -> Result<(), scpi::Error> {
        self.log.push(Ev::Str("FAIL", vec![a.to_string()]));
        Err(scpi::Error::ExecutionError)
    }
    #[scpi(cmd = "ECHO?")]
    async fn echo(&mut self, a: &str) -> Result<String, scpi::Error> {
        tokio::task::yield_now().await;
        self.log.push(Ev::Str("ECHO?", vec![a.to_string()]));
        Ok(a.to_string())
    }
    #[scpi(cmd = "EB?")]
    async fn eb(&mut self, a: &[u8]) -> Result<usize, scpi::Error> {
        self.log.push(Ev::Blk("EB?", vec![a.to_vec()]));
        Ok(a.len())
    }
    #[scpi(cmd = "TEN")]
    #[allow(clippy::too_many_arguments)]
    fn ten(
        &mut self, a: &str, b: &str, c: &str, d: &str, e: &str, f: &str, g: &str, h: &str,
        i: &str, j: &str,
    ) -> Result<(), scpi::Error> {
        self.log.push(Ev::Str(
            "TEN",
            [a, b, c, d, e, f, g, h, i, j].iter().map(|s| s.to_string()).collect(),
        ));
        Ok(())
    }
}

struct Rng(u64);
impl Rng {
    fn next(&mut self) -> u64 {
        self.0 ^= self.0 << 13;
        self.0 ^= self.0 >> 7;
        self.0 ^= self.0 << 17;
        self.0
    }
    fn below(&mut self, n: usize) -> usize {
        (self.next() % n as u64) as usize
    }
}

const STR_ALPHA: &[&str] = &[
    ";", ",", ":", "#", "'", "\"", " ", "\t", "\n", "\n", "\n", "a", "1", "*", "?", "\r", "\0",
    "é", "#15", "#H", "PLAIN", "*CLS", "\n\n", ";PLAIN\n", "#210",
];

fn gen_str(r: &mut Rng, quote: char) -> String {
    let n = r.below(6);
    let mut s = String::new();
    for _ in 0..n {
        let p = STR_ALPHA[r.below(STR_ALPHA.len())];
        if !p.contains(quote) {
            s.push_str(p);
        }
    }
    s
}

const BLK_ALPHA: &[u8] = b";,:#'\" \t\n\n\na1*?\r\0\xff\x80\n";

fn gen_blk(r: &mut Rng) -> Vec<u8> {
    let n = r.below(13);
    (0..n).map(|_| BLK_ALPHA[r.below(BLK_ALPHA.len())]).collect()
}

fn enc_str(r: &mut Rng, out: &mut Vec<u8>) -> String {
    let q = if r.below(2) == 0 { '\'' } else { '"' };
    let s = gen_str(r, q);
    out.push(q as u8);
    out.extend_from_slice(s.as_bytes());
    out.push(q as u8);
    s
}

fn enc_blk(r: &mut Rng, out: &mut Vec<u8>) -> Vec<u8> {
    let b = gen_blk(r);
    let len = b.len().to_string();
    if r.below(3) == 0 {
        // padded length
        let l = format!("{:03}", b.len());
        out.extend_from_slice(format!("#{}{}", l.len(), l).as_bytes());
    }
    else {
        out.extend_from_slice(format!("#{}{}", len.len(), len).as_bytes());
    }
    out.extend_from_slice(&b);
    b
}

fn ws(r: &mut Rng, out: &mut Vec<u8>) {
    for _ in 0..r.below(3) {
        out.push(*b" \t\r".get(r.below(3)).unwrap());
    }
}

fn sep(r: &mut Rng, out: &mut Vec<u8>) {
    ws(r, out);
    out.push(b',');
    ws(r, out);
}

/// Generates one message, returns bytes, expected events, expected response
fn gen_msg(r: &mut Rng) -> (Vec<u8>, Vec<Ev>, Vec<u8>) {
    let units = 1 + r.below(4);
    let mut out = Vec::new();
    let mut evs = Vec::new();
    let mut resp = Vec::new();
    let mut in_sys = false; // header is SYST (or SYST:SUB)
    let mut in_sub = false;
    for u in 0..units {
        if u > 0 {
            out.push(b';');
        }
        ws(r, &mut out);
        let choice = r.below(14);
        let rel = in_sys && r.below(2) == 0;
        match choice {
            0 => {
                out.extend_from_slice(if in_sys || in_sub { b":STR " } else { b"STR " });
                let s = enc_str(r, &mut out);
                evs.push(Ev::Str("STR", vec![s]));
                in_sys = false;
                in_sub = false;
            }
            1 => {
                out.extend_from_slice(b":S2 ");
                let a = enc_str(r, &mut out);
                sep(r, &mut out);
                let b = enc_str(r, &mut out);
                evs.push(Ev::Str("S2", vec![a, b]));
                in_sys = false;
                in_sub = false;
            }
            2 => {
                out.extend_from_slice(b":BLK ");
                let a = enc_blk(r, &mut out);
                evs.push(Ev::Blk("BLK", vec![a]));
                in_sys = false;
                in_sub = false;
            }
            3 => {
                out.extend_from_slice(b":mix ");
                let a = enc_str(r, &mut out);
                sep(r, &mut out);
                let b = enc_blk(r, &mut out);
                sep(r, &mut out);
                let c = enc_str(r, &mut out);
                evs.push(Ev::Mix(a, b, c));
                in_sys = false;
                in_sub = false;
            }
            4 | 5 => {
                // SYST:STR, relative if possible
                if rel {
                    out.extend_from_slice(b"STR ");
                }
                else if r.below(2) == 0 {
                    out.extend_from_slice(b":SYST:STR ");
                    in_sub = false;
                }
                else {
                    out.extend_from_slice(b":SYSTEM:SUB:STR ");
                    in_sub = true;
                }
                in_sys = true;
                let s = enc_str(r, &mut out);
                evs.push(Ev::Str("SYS:STR", vec![s]));
            }
            6 | 7 => {
                if rel {
                    out.extend_from_slice(b"BLK ");
                }
                else if r.below(2) == 0 {
                    out.extend_from_slice(b":SYST:BLK ");
                    in_sub = false;
                }
                else {
                    out.extend_from_slice(b":syst:sub:blk ");
                    in_sub = true;
                }
                in_sys = true;
                let s = enc_blk(r, &mut out);
                evs.push(Ev::Blk("SYS:BLK", vec![s]));
            }
            8 => {
                out.extend_from_slice(b"*CLS");
                evs.push(Ev::Plain("*CLS"));
            }
            9 => {
                out.extend_from_slice(b"*STR ");
                let s = enc_str(r, &mut out);
                evs.push(Ev::Str("*STR", vec![s]));
            }
            10 => {
                out.extend_from_slice(b":FAIL ");
                let s = enc_str(r, &mut out);
                evs.push(Ev::Str("FAIL", vec![s]));
                evs.push(Ev::Err(scpi::Error::ExecutionError));
                in_sys = false;
                in_sub = false;
            }
            11 => {
                out.extend_from_slice(b":ECHO? ");
                let s = enc_str(r, &mut out);
                resp.push(b'"');
                resp.extend_from_slice(s.replace('"', "\"\"").as_bytes());
                resp.extend_from_slice(b"\"\n");
                evs.push(Ev::Str("ECHO?", vec![s]));
                in_sys = false;
                in_sub = false;
            }
            12 => {
                out.extend_from_slice(b":EB? ");
                let s = enc_blk(r, &mut out);
                resp.extend_from_slice(format!("{}\n", s.len()).as_bytes());
                evs.push(Ev::Blk("EB?", vec![s]));
                in_sys = false;
                in_sub = false;
            }
            _ => {
                if r.below(4) == 0 {
                    out.extend_from_slice(b":TEN ");
                    let mut v = Vec::new();
                    for i in 0..10 {
                        if i > 0 {
                            sep(r, &mut out);
                        }
                        v.push(enc_str(r, &mut out));
                    }
                    evs.push(Ev::Str("TEN", v));
                    in_sys = false;
                    in_sub = false;
                }
                else if in_sys && !in_sub {
                    out.extend_from_slice(b"PLAIN");
                    evs.push(Ev::Plain("SYS:PLAIN"));
                }
                else {
                    out.extend_from_slice(b":PLAIN");
                    evs.push(Ev::Plain("PLAIN"));
                    in_sys = false;
                    in_sub = false;
                }
            }
        }
        ws(r, &mut out);
    }
    out.push(b'\n');
    (out, evs, resp)
}

struct Script {
    chunks: Vec<Vec<u8>>,
    idx: usize,
    off: usize,
    written: Vec<u8>,
}

impl Adapter for Script {
    type Error = ();
    async fn read(&mut self, dst: &mut [u8]) -> Result<usize, ()> {
        if self.idx >= self.chunks.len() {
            return Err(());
        }
        assert!(!dst.is_empty(), "read called with empty buffer");
        let c = &self.chunks[self.idx];
        let n = (c.len() - self.off).min(dst.len());
        dst[..n].copy_from_slice(&c[self.off..self.off + n]);
        self.off += n;
        if self.off >= c.len() {
            self.idx += 1;
            self.off = 0;
        }
        Ok(n)
    }
    async fn write(&mut self, src: &[u8]) -> Result<(), ()> {
        self.written.extend_from_slice(src);
        Ok(())
    }
    async fn flush(&mut self) -> Result<(), ()> {
        Ok(())
    }
}

fn chunk(r: &mut Rng, data: &[u8]) -> Vec<Vec<u8>> {
    let mut chunks = Vec::new();
    let mut i = 0;
    let mode = r.below(4);
    while i < data.len() {
        let n = match mode {
            0 => 1,
            1 => 1 + r.below(3),
            2 => 1 + r.below(40),
            _ => data.len(),
        };
        let e = (i + n).min(data.len());
        chunks.push(data[i..e].to_vec());
        if r.below(5) == 0 {
            chunks.push(Vec::new());
        }
        i = e;
    }
    chunks
}


const SIZES: &[usize] = &[6, 7, 8, 9, 10, 11, 12, 13, 14, 15, 16, 17, 18, 19, 20, 21, 22, 23, 24, 25, 26, 27, 28, 29, 30, 31, 32, 33, 34, 35, 36, 37, 38, 39, 40, 41, 42, 43, 44, 45, 46, 47, 48, 49, 50, 51, 52, 53, 54, 55, 56, 57, 58, 59, 60, 61, 62, 63, 64, 65, 66, 67, 68, 69, 70, 71, 72, 73, 74, 75, 76, 77, 78, 79, 80, 88, 96, 112, 128, 160, 192, 256];

async fn run_process(n: usize, chunks: &[Vec<u8>]) -> (Vec<Ev>, Vec<u8>) {
    let mut ad = Script { chunks: chunks.to_vec(), idx: 0, off: 0, written: Vec::new() };
    let mut dev = Dev::default();
    macro_rules! go { ($($k:literal),*) => { match n { $( $k => { let _ = dev.process::<$k, _>(&mut ad).await; } )* _ => unreachable!() } } }
    go!(6, 7, 8, 9, 10, 11, 12, 13, 14, 15, 16, 17, 18, 19, 20, 21, 22, 23, 24, 25, 26, 27, 28, 29, 30, 31, 32, 33, 34, 35, 36, 37, 38, 39, 40, 41, 42, 43, 44, 45, 46, 47, 48, 49, 50, 51, 52, 53, 54, 55, 56, 57, 58, 59, 60, 61, 62, 63, 64, 65, 66, 67, 68, 69, 70, 71, 72, 73, 74, 75, 76, 77, 78, 79, 80, 88, 96, 112, 128, 160, 192, 256);
    (dev.log, ad.written)
}

const NL: u8 = 0x01; // placeholder for a newline inside a payload
const SUB: u8 = 0x02;

fn twin(msg: &[u8], b: u8) -> Vec<u8> {
    msg.iter().map(|c| if *c == NL { b } else { *c }).collect()
}

fn map_ev(evs: Vec<Ev>) -> Vec<Ev> {
    let ms = |s: String| s.replace('\n', "\u{2}");
    let mb = |b: Vec<u8>| b.into_iter().map(|c| if c == b'\n' { SUB } else { c }).collect::<Vec<u8>>();
    evs.into_iter().map(|e| match e {
        Ev::Str(n, v) => Ev::Str(n, v.into_iter().map(ms).collect()),
        Ev::Blk(n, v) => Ev::Blk(n, v.into_iter().map(mb).collect()),
        Ev::Mix(a, b, c) => Ev::Mix(ms(a), mb(b), ms(c)),
        o => o,
    }).collect()
}

const P_ALPHA: &[&[u8]] = &[
    b";", b",", b":", b"#", b"'", b"\"", b" ", b"\t", &[NL], &[NL], &[NL], &[NL], b"a", b"1", b"*", b"?", b"\r", b"\0",
    b"#15", b"#H", b"PLAIN", b"*CLS", &[NL, NL], &[b';', b'P', b'L', b'A', b'I', b'N', NL], b"#210", b"STR ",
];

fn p_str(r: &mut Rng, out: &mut Vec<u8>) {
    let q = if r.below(2) == 0 { b'\'' } else { b'"' };
    out.push(q);
    for _ in 0..r.below(6) {
        let p = P_ALPHA[r.below(P_ALPHA.len())];
        if !p.contains(&q) { out.extend_from_slice(p); }
    }
    out.push(q);
}

fn p_blk(r: &mut Rng, out: &mut Vec<u8>) {
    let n = r.below(13);
    let mut b = Vec::new();
    while b.len() < n {
        let p = P_ALPHA[r.below(P_ALPHA.len())];
        b.extend_from_slice(p);
    }
    if r.below(8) == 0 { b.push(0xff); b.push(0x80); }
    if r.below(4) == 0 { for _ in 0..r.below(20) { let c = (r.next() >> 11) as u8; if c != NL && c != SUB && c != b'\n' { b.push(c); } } }
    let l = if r.below(3) == 0 { format!("{:03}", b.len()) } else { b.len().to_string() };
    out.extend_from_slice(format!("#{}{}", l.len(), l).as_bytes());
    out.extend_from_slice(&b);
}

fn p_arg(r: &mut Rng, out: &mut Vec<u8>) {
    match r.below(8) {
        0..=3 => p_str(r, out),
        4..=6 => p_blk(r, out),
        _ => out.extend_from_slice([&b"12"[..], b"ON", b"#HFF", b"-1.5e3"][r.below(4)]),
    }
}

const HEADS: &[&[u8]] = &[
    b"STR", b":STR", b"S2", b":S2", b"BLK", b":BLK", b"MIX", b"SYST:STR", b":SYST:SUB:STR", b"SYST:BLK",
    b":SYSTem:BLK", b"SUB:STR", b"SUB:BLK", b"PLAIN", b":PLAIN", b"SYST:PLAIN", b"*CLS", b"*STR", b"FAIL",
    b"ECHO?", b":ECHO?", b"EB?", b"TEN", b"BAD", b"*BAD", b"STR?", b"SYST", b"@", b"SYST:SUB",
];

fn gen_any(r: &mut Rng) -> Vec<u8> {
    let mut out = Vec::new();
    let units = 1 + r.below(4);
    for u in 0..units {
        if u > 0 { out.push(b';'); }
        ws(r, &mut out);
        if r.below(25) == 0 { continue; } // empty unit
        out.extend_from_slice(HEADS[r.below(HEADS.len())]);
        let nargs = match r.below(10) { 0 => 0, 1..=5 => 1, 6..=7 => 2, 8 => 3, _ => r.below(12) };
        if nargs > 0 || r.below(3) == 0 { out.push(b' '); }
        ws(r, &mut out);
        for a in 0..nargs {
            if a > 0 {
                if r.below(30) == 0 { out.push(b' '); } else { sep(r, &mut out); }
            }
            p_arg(r, &mut out);
        }
        if r.below(40) == 0 { out.push(b','); }
        ws(r, &mut out);
    }
    out.push(b'\n');
    out
}

async fn whole(msg: &[u8]) -> (Vec<Ev>, Vec<u8>, usize) {
    let mut dev = Dev::default();
    let mut out: Vec<u8> = Vec::new();
    let rem = dev.run(msg, &mut out).await.len();
    (dev.log, out, rem)
}

#[tokio::test]
async fn twin_run_whole() {
    let mut r = Rng(0x7777_5678_9abc_def1 ^ std::env::var("SEED").ok().and_then(|s| s.parse::<u64>().ok()).unwrap_or(0));
    let mut with_nl = 0;
    for _ in 0..400000 {
        let m = gen_any(&mut r);
        if !m.contains(&NL) { continue; }
        with_nl += 1;
        let a = twin(&m, b'\n');
        let b = twin(&m, SUB);
        let (la, oa, ra) = whole(&a).await;
        let (lb, ob, rb) = whole(&b).await;
        let oa2: Vec<u8> = oa.iter().map(|c| if *c == b'\n' { SUB } else { *c }).collect();
        let ob2: Vec<u8> = ob.iter().map(|c| if *c == b'\n' { SUB } else { *c }).collect();
        assert!(map_ev(la.clone()) == lb && oa2 == ob2 && ra == rb,
            "A {:?}\n la {:?}\n lb {:?}\n oa {:?} ob {:?} ra {} rb {}", String::from_utf8_lossy(&a), la, lb,
            String::from_utf8_lossy(&oa), String::from_utf8_lossy(&ob), ra, rb);
    }
    println!("with_nl {}", with_nl);
}

#[tokio::test]
async fn twin_process() {
    let mut r = Rng(0xdead_beef_1234_5678 ^ std::env::var("SEED").ok().and_then(|s| s.parse::<u64>().ok()).unwrap_or(0));
    let mut done = 0;
    for iter in 0..400000 {
        let nmsg = 1 + r.below(3);
        let mut msgs = Vec::new();
        for _ in 0..nmsg { msgs.push(gen_any(&mut r)); }
        let maxlen = msgs.iter().map(|m| m.len()).max().unwrap();
        let fitting: Vec<usize> = SIZES.iter().copied().filter(|s| *s >= maxlen).collect();
        if fitting.is_empty() { continue; }
        let n = if r.below(2) == 0 { fitting[0] } else { fitting[r.below(fitting.len().min(8))] };
        let all: Vec<u8> = msgs.concat();
        let chunks_m = chunk(&mut r, &all);
        let ca: Vec<Vec<u8>> = chunks_m.iter().map(|c| twin(c, b'\n')).collect();
        // oracle: each message of twin B on its own through run
        let mut lb = Vec::new();
        let mut ob = Vec::new();
        for m in &msgs {
            let (l, o, rem) = whole(&twin(m, SUB)).await;
            assert_eq!(rem, 0);
            lb.extend(l);
            ob.extend(o);
        }
        let ob2: Vec<u8> = ob.iter().map(|c| if *c == b'\n' { SUB } else { *c }).collect();
        let (la, oa) = run_process(n, &ca).await;
        let oa2: Vec<u8> = oa.iter().map(|c| if *c == b'\n' { SUB } else { *c }).collect();
        done += 1;
        assert!(map_ev(la.clone()) == lb && oa2 == ob2,
            "iter {} N {} A {:?}\n chunks {:?}\n la {:?}\n lb {:?}\n oa {:?} ob {:?}", iter, n,
            String::from_utf8_lossy(&twin(&all, b'\n')),
            ca.iter().map(|c| String::from_utf8_lossy(c).to_string()).collect::<Vec<_>>(), la, lb,
            String::from_utf8_lossy(&oa), String::from_utf8_lossy(&ob));
    }
    println!("done {}", done);
}

fn gen_wild(r: &mut Rng) -> Vec<u8> {
    let mut m = gen_any(r);
    if r.below(5) == 0 {
        let k = r.below(70);
        match r.below(3) {
            0 => { let mut p = vec![b' '; k]; p.extend_from_slice(&m); m = p; }
            1 => { m.pop(); m.extend(std::iter::repeat(b'\t').take(k)); m.push(b'\n'); }
            _ => { m.pop(); m.extend_from_slice(b";BAD"); m.extend(std::iter::repeat(b'x').take(k)); m.push(b'\n'); }
        }
    }
    m
}

#[tokio::test]
async fn twin_process_wild() {
    let mut r = Rng(0xabcdef12_3456_789a);
    let mut flagged = 0;
    for iter in 0..600000 {
        let nmsg = 1 + r.below(4);
        let mut msgs = Vec::new();
        for _ in 0..nmsg { msgs.push(gen_wild(&mut r)); }
        let n = SIZES[r.below(SIZES.len())];
        let all: Vec<u8> = msgs.concat();
        let chunks_m = chunk(&mut r, &all);
        let ca: Vec<Vec<u8>> = chunks_m.iter().map(|c| twin(c, b'\n')).collect();
        let cb: Vec<Vec<u8>> = chunks_m.iter().map(|c| twin(c, SUB)).collect();
        let (la, oa) = run_process(n, &ca).await;
        let (lb, ob) = run_process(n, &cb).await;
        let oa2: Vec<u8> = oa.iter().map(|c| if *c == b'\n' { SUB } else { *c }).collect();
        let ob2: Vec<u8> = ob.iter().map(|c| if *c == b'\n' { SUB } else { *c }).collect();
        if map_ev(la.clone()) != lb || oa2 != ob2 {
            // is there an oversize message with an NL?
            let over_nl = msgs.iter().any(|m| m.len() > n && m.contains(&NL));
            if !over_nl {
                flagged += 1;
                if flagged < 6 {
                    println!("iter {} N {} A {:?}\n lens {:?}\n chunks {:?}\n la {:?}\n lb {:?}\n oa {:?} ob {:?}\n", iter, n,
                        String::from_utf8_lossy(&twin(&all, b'\n')),
                        msgs.iter().map(|m| m.len()).collect::<Vec<_>>(),
                        ca.iter().map(|c| String::from_utf8_lossy(c).to_string()).collect::<Vec<_>>(), la, lb,
                        String::from_utf8_lossy(&oa), String::from_utf8_lossy(&ob));
                }
            }
        }
    }
    println!("flagged {}", flagged);
}

#[tokio::test]
async fn observe_oversize() {
    // N = 32, message of 51 bytes: STR "<30 a>\nPLAIN;STR ","b"\n
    let mut m = b"STR \"".to_vec();
    m.extend(std::iter::repeat(b'a').take(30));
    m.extend_from_slice(b"\nPLAIN;STR \",\"b\"\n");
    let (l, o) = run_process(32, &[m.clone()]).await;
    println!("oversize string: {:?} {:?}", l, o);
    let mut m = b"BLK #236".to_vec();
    m.extend(std::iter::repeat(b'a').take(29));
    m.extend_from_slice(b"\nPLAIN\n\n");
    let (l, o) = run_process(32, &[m.clone()]).await;
    println!("oversize block: {:?} {:?}", l, o);
    // knock-on
    let mut m = b"STR \"".to_vec();
    m.extend(std::iter::repeat(b'a').take(30));
    m.extend_from_slice(b"\nbbb\"\nSTR \"x\ny\"\nPLAIN\n");
    let (l, o) = run_process(32, &[m.clone()]).await;
    println!("knock-on: {:?} {:?}", l, o);
    // stray quote
    let (l, o) = run_process(32, &[b"BAD '\nSTR \"x\ny\"\nPLAIN\n".to_vec()]).await;
    println!("stray: {:?} {:?}", l, o);
    let (l, o) = run_process(64, &[b"PLAIN;BAD';STR \"a'\nb\"\nPLAIN\n".to_vec()]).await;
    println!("stray2 A: {:?} {:?}", l, o);
    let (l, o) = run_process(64, &[b"PLAIN;BAD';STR \"a'b\"\nPLAIN\n".to_vec()]).await;
    println!("stray2 B: {:?} {:?}", l, o);
}
