//! C04, pass-through writer: a query whose response cannot be encoded leaves the
//! beginning of that response in a writer that cannot roll back. The fragment has no
//! terminator and becomes the prefix of the next response, which then decodes to a
//! value no handler returned.
//!
//! The only `Response` implementation that can fail by itself (i.e. although the
//! writer has room) is `Arbitrary` for a block of 1_000_000_000 bytes or more, whose
//! length does not fit the nine digits of a definite-length block header. When the
//! block is not the first element of a tuple / list, the elements before it have
//! already been passed to the writer when the error is detected.
use microscpi::{self as scpi, Arbitrary, Interface, Write};

/// A writer that passes everything on immediately: `position()` is `None`.
#[derive(Default)]
struct PassThrough {
    bytes: Vec<u8>,
    flushed_at: Vec<usize>,
}

impl Write for PassThrough {
    async fn write_bytes(&mut self, bytes: &[u8]) -> Result<(), scpi::Error> {
        self.bytes.extend_from_slice(bytes);
        Ok(())
    }

    async fn write_char(&mut self, c: char) -> Result<(), scpi::Error> {
        let mut buf = [0u8; 4];
        self.bytes.extend_from_slice(c.encode_utf8(&mut buf).as_bytes());
        Ok(())
    }

    async fn write_str(&mut self, s: &str) -> Result<(), scpi::Error> {
        self.bytes.extend_from_slice(s.as_bytes());
        Ok(())
    }

    async fn write_fmt(&mut self, args: core::fmt::Arguments<'_>) -> Result<(), scpi::Error> {
        self.bytes.extend_from_slice(format!("{}", args).as_bytes());
        Ok(())
    }

    async fn flush(&mut self) -> Result<(), scpi::Error> {
        self.flushed_at.push(self.bytes.len());
        Ok(())
    }
}

struct Device {
    errors: Vec<scpi::Error>,
    /// 10^9 zero bytes (lazily mapped zero pages, never touched by this test).
    trace: Vec<u8>,
}

impl scpi::ErrorHandler for Device {
    fn handle_error(&mut self, error: scpi::Error) {
        self.errors.push(error);
    }
}

#[scpi::interface]
impl Device {
    /// channel number, trace data
    #[scpi(cmd = "TRACe?")]
    fn trace(&mut self) -> Result<(u8, Arbitrary<'_>), scpi::Error> {
        Ok((1, Arbitrary(&self.trace)))
    }

    #[scpi(cmd = "CHANnel?")]
    fn channel(&mut self) -> Result<u8, scpi::Error> {
        Ok(1)
    }
}

#[tokio::test]
async fn failed_response_leaves_nothing_in_a_pass_through_writer() {
    let mut device = Device {
        errors: Vec::new(),
        trace: vec![0u8; 1_000_000_000],
    };
    let mut writer = PassThrough::default();

    device.run(b"TRAC?;CHAN?\n", &mut writer).await;

    // TRAC? was reported as failed (-223), so it must not have produced any output, and
    // the response of CHAN? is `1`.
    assert_eq!(device.errors, [scpi::Error::TooMuchData]);
    assert_eq!(
        String::from_utf8_lossy(&writer.bytes),
        "1\n",
        "the response of CHAN? is prefixed by a fragment of the failed TRAC? response"
    );
    assert_eq!(writer.flushed_at, [2]);
}
