//! C04, "decoding that response yields exactly the returned value", quantified over
//! nested tuples / slices / heapless vectors: the elements of an inner sequence are
//! joined with the same comma as the elements of the outer one and nothing marks where
//! an inner sequence ends, so different returned values of the same response type are
//! encoded to the same bytes. No decoder can give back "exactly the returned value".
use microscpi::{self as scpi, Interface};

struct Device {
    errors: Vec<scpi::Error>,
}

impl scpi::ErrorHandler for Device {
    fn handle_error(&mut self, error: scpi::Error) {
        self.errors.push(error);
    }
}

#[scpi::interface]
impl Device {
    #[scpi(cmd = "PAIR:A?")]
    fn pair_a(&mut self) -> Result<(&[i32], &[i32]), scpi::Error> {
        Ok((&[1], &[2, 3]))
    }

    #[scpi(cmd = "PAIR:B?")]
    fn pair_b(&mut self) -> Result<(&[i32], &[i32]), scpi::Error> {
        Ok((&[1, 2], &[3]))
    }

    #[scpi(cmd = "NESTed:A?")]
    fn nested_a(&mut self) -> Result<&[&[u8]], scpi::Error> {
        Ok(&[&[1, 2], &[], &[3]])
    }

    #[scpi(cmd = "NESTed:B?")]
    fn nested_b(&mut self) -> Result<&[&[u8]], scpi::Error> {
        Ok(&[&[1], &[2], &[], &[3]])
    }

    #[scpi(cmd = "HEAPless:A?")]
    fn heapless_a(&mut self) -> Result<heapless::Vec<heapless::Vec<u8, 4>, 4>, scpi::Error> {
        let mut outer = heapless::Vec::new();
        outer.push(heapless::Vec::from_slice(&[7, 8]).unwrap()).unwrap();
        Ok(outer)
    }

    #[scpi(cmd = "HEAPless:B?")]
    fn heapless_b(&mut self) -> Result<heapless::Vec<heapless::Vec<u8, 4>, 4>, scpi::Error> {
        let mut outer = heapless::Vec::new();
        outer.push(heapless::Vec::from_slice(&[7]).unwrap()).unwrap();
        outer.push(heapless::Vec::from_slice(&[8]).unwrap()).unwrap();
        Ok(outer)
    }
}

async fn query(command: &[u8]) -> Vec<u8> {
    let mut device = Device { errors: Vec::new() };
    let mut output: Vec<u8> = Vec::new();
    let rest = device.run(command, &mut output).await;
    assert!(rest.is_empty());
    assert!(device.errors.is_empty());
    output
}

#[tokio::test]
async fn tuple_of_two_slices_is_decodable() {
    // ([1], [2, 3]) and ([1, 2], [3])
    let a = query(b"PAIR:A?\n").await;
    let b = query(b"PAIR:B?\n").await;
    assert_ne!(
        String::from_utf8_lossy(&a),
        String::from_utf8_lossy(&b),
        "two different values of type (&[i32], &[i32]) have the same response"
    );
}

#[tokio::test]
async fn slice_of_slices_is_decodable() {
    // [[1, 2], [], [3]] and [[1], [2], [], [3]]
    let a = query(b"NEST:A?\n").await;
    let b = query(b"NEST:B?\n").await;
    assert_ne!(
        String::from_utf8_lossy(&a),
        String::from_utf8_lossy(&b),
        "two different values of type &[&[u8]] have the same response"
    );
}

#[tokio::test]
async fn heapless_vector_of_vectors_is_decodable() {
    // [[7, 8]] and [[7], [8]]
    let a = query(b"HEAP:A?\n").await;
    let b = query(b"HEAP:B?\n").await;
    assert_ne!(
        String::from_utf8_lossy(&a),
        String::from_utf8_lossy(&b),
        "two different values of type Vec<Vec<u8, 4>, 4> have the same response"
    );
}
