import itertools, random, re, subprocess, sys, os, json
random.seed(int(sys.argv[1]) if len(sys.argv)>1 else 1)
N = int(sys.argv[2]) if len(sys.argv)>2 else 400
D='/tmp/seed4/C14/target/debug/deps'
P='/tmp/seed4/C14/target/probe'
names = ["A","Ab","AB","aB","ab","B","Ba","BA","a1","A1","A1b","Ab1","AbC","ABC","A_b","*A","*Ab","*AB","*ab","S","SYSTem","SYST","ERRor","ERR","NEXT","NEXt","COUNt","VERSion","VERS","VERSION","Abc","ABc"]
def mk_part():
    n = random.choice([x for x in names if not x.startswith("*")])
    r = random.random()
    if r < 0.35: n = "["+n+"]"
    return n
def mk_decl():
    if random.random()<0.12: return random.choice(["*A","*Ab","*AB","*ab","[*A]","*aB"])+random.choice(["","?"])
    k = random.choice([1,1,2,2,2,3,3,4])
    parts=[mk_part() for _ in range(k)]
    s=":".join(parts)
    r=random.random()
    if r<0.1: s=":"+s
    elif r<0.15: s=s.replace(":"," : ",1)
    elif r<0.2: s=s.replace(":","::",1)
    if random.random()<0.5: s+="?"
    return s
MN=re.compile(r'^[A-Z][A-Z0-9_]*$')
def expand(decl):
    q = decl.endswith('?')
    v = decl[:-1] if q else decl
    alts=[]
    for p in v.split(':'):
        p=p.strip()
        if not p: continue
        opt = p.startswith('[') and p.endswith(']')
        if opt: p=p[1:-1]
        long=p.upper()
        short=''.join(c for c in p if not c.islower())
        a={long,short}
        if opt: a.add(None)
        alts.append(a)
    paths=set()
    for combo in itertools.product(*alts):
        path=tuple(x for x in combo if x is not None)
        if not path: continue
        # spellable?
        if path[0].startswith('*'):
            ok = len(path)==1 and MN.match(path[0][1:])
        else:
            ok = all(MN.match(x) for x in path)
        if ok: paths.add(path)
    return q, paths
STD = {"std":["SYSTem:VERSion?"], "err":["SYSTem:ERRor:[NEXT]?","SYSTem:ERRor:COUNt?"]}
mods=[]
for i in range(N):
    nd = random.choice([2,2,2,3])
    decls=[mk_decl() for _ in range(nd)]
    if random.random()<0.3:
        # force related: mutate copy of first
        d=decls[0]
        decls[1]=random.choice([d, d.upper(), d.replace('[','').replace(']',''), ''.join(c for c in d if not c.islower())])
    cfg = random.choice(["","","","std","err","both"])
    extra=[]
    if cfg in("std","both"): extra+=STD["std"]
    if cfg in("err","both"): extra+=STD["err"]
    ex=[expand(d) for d in decls+extra]
    coll=False
    for a in range(len(ex)):
        for b in range(a+1,len(ex)):
            if ex[a][0]==ex[b][0] and ex[a][1]&ex[b][1]: coll=True
    mods.append(dict(i=i,decls=decls,cfg=cfg,coll=coll,ex=[(q,sorted(p)) for q,p in ex[:len(decls)]]))
def render(mods, with_check):
    out=["#![allow(dead_code,unused)]\nuse microscpi as scpi;\n"]
    lines={}
    for m in mods:
        attr = {"":"","std":"(StandardCommands)","err":"(ErrorCommands)","both":"(StandardCommands, ErrorCommands)"}[m['cfg']]
        s=f"pub mod m{m['i']} {{\n use microscpi as scpi; use scpi::Interface;\n pub struct T(pub u32, pub scpi::StaticErrorQueue<4>);\n"
        if m['cfg'] in ("err","both"):
            s+=" impl scpi::ErrorCommands for T { fn error_queue(&mut self) -> &mut impl scpi::ErrorQueue { self.0 |= 0x10000; &mut self.1 } }\n"
        else:
            s+=" impl scpi::ErrorHandler for T { fn handle_error(&mut self, _e: scpi::Error) { self.0 |= 0x10000; } }\n"
        if m['cfg'] in ("std","both"):
            s+=" impl scpi::StandardCommands for T {}\n"
        s+=f" #[scpi::interface{attr}]\n impl T {{\n"
        for j,d in enumerate(m['decls']):
            q=d.endswith('?')
            ret = "u8" if q else "()"
            val = "7" if q else "()"
            s+=f"  #[scpi(cmd = {json.dumps(d)})] fn h{j}(&mut self) -> Result<{ret}, scpi::Error> {{ self.0 |= {1<<j}; Ok({val}) }}\n"
        s+=" }\n"
        if with_check:
            s+=" pub async fn check(bad: &mut Vec<String>) {\n"
            for j,(q,paths) in enumerate(m['ex']):
                for p in paths:
                    for variant in (0,1):
                        sp=":".join(p)
                        if variant: sp=sp.lower()
                        msg=sp+("?" if q else "")+"\n"
                        s+=f"  {{ let mut t=T(0, scpi::StaticErrorQueue::new()); let mut o: Vec<u8>=Vec::new(); t.run({json.dumps(msg)}.as_bytes(), &mut o).await; if t.0 != {1<<j} {{ bad.push(format!(\"m{m['i']} {{:?}} msg {{:?}} got {{:#x}} want {1<<j}\", {json.dumps(m['decls'])}, {json.dumps(msg)}, t.0)); }} }}\n"
            s+=" }\n"
        s+="}\n"
        start=sum(x.count("\n") for x in out)+1
        out.append(s)
        end=sum(x.count("\n") for x in out)
        lines[m['i']]=(start,end)
    if with_check:
        out.append("fn main(){ let rt=tokio::runtime::Builder::new_current_thread().build().unwrap(); rt.block_on(async { let mut bad=Vec::new();\n")
        for m in mods: out.append(f" m{m['i']}::check(&mut bad).await;\n")
        out.append(" for b in &bad { println!(\"BAD {}\", b); } println!(\"checked, {} bad\", bad.len()); }); }\n")
    else:
        out.append("fn main(){}\n")
    return "".join(out), lines
src,lines=render(mods,False)
open(P+'/p1.rs','w').write(src)
ext=[]
for lib in ["microscpi","heapless","tokio"]:
    f=[x for x in os.listdir(D) if x.startswith("lib"+lib+"-") and x.endswith(".rlib")][0]
    ext+=["--extern",f"{lib}={D}/{f}"]
r=subprocess.run(["rustc","--edition","2021","--error-format=json","--emit=metadata","-L",f"dependency={D}","-o",P+"/p1.rmeta",P+"/p1.rs"]+ext,capture_output=True,text=True)
failed={}
for l in r.stderr.splitlines():
    try: j=json.loads(l)
    except: continue
    if j.get('level')!='error': continue
    for sp in j.get('spans',[]):
        ln=sp['line_start']
        for i,(a,b) in lines.items():
            if a<=ln<=b: failed.setdefault(i,[]).append(j['message'])
nc=0
for m in mods:
    f = m['i'] in failed
    if f != m['coll']:
        print("MISMATCH", m['decls'], m['cfg'], "model collide", m['coll'], "compile failed", f, failed.get(m['i']))
    nc+=m['coll']
print("modules",len(mods),"colliding",nc,"failed",len(failed))
good=[m for m in mods if m['i'] not in failed]
src,_=render(good,True)
open(P+'/p2.rs','w').write(src)
r=subprocess.run(["rustc","--edition","2021","-L",f"dependency={D}","-o",P+"/p2",P+"/p2.rs"]+ext,capture_output=True,text=True)
if r.returncode: print(r.stderr[-3000:])
else:
    r=subprocess.run([P+"/p2"],capture_output=True,text=True); print(r.stdout[-3000:], r.stderr[-2000:])
