//! C06 bug 2: the length field of a definite-length block is parsed with
//! `usize::from_str_radix`, which accepts a leading `+`. `#2+5` is therefore
//! taken for the header of a block of five bytes although IEEE 488.2 allows
//! only digits there. The unit is a syntax error, its message ends at the
//! newline - but the library swallows the newline and the following message as
//! block data, reports nothing and invokes the handler of the faulty unit.

use microscpi::{self as scpi, Interface};

#[derive(Default)]
struct Dev {
    log: Vec<String>,
    errors: Vec<scpi::Error>,
}

impl scpi::ErrorHandler for Dev {
    fn handle_error(&mut self, error: scpi::Error) {
        self.errors.push(error);
    }
}

#[scpi::interface]
impl Dev {
    #[scpi(cmd = "*RST")]
    async fn rst(&mut self) -> Result<(), scpi::Error> {
        self.log.push("rst".into());
        Ok(())
    }

    #[scpi(cmd = "*IDN?")]
    async fn idn(&mut self) -> Result<&str, scpi::Error> {
        self.log.push("idn".into());
        Ok("dev")
    }

    #[scpi(cmd = "DATA")]
    async fn data(&mut self, data: &[u8]) -> Result<(), scpi::Error> {
        self.log.push(format!("data {:?}", String::from_utf8_lossy(data)));
        Ok(())
    }
}

#[tokio::test]
async fn signed_block_length_does_not_swallow_the_next_message() {
    let mut dev = Dev::default();
    let mut out: heapless::Vec<u8, 64> = heapless::Vec::new();

    let remaining = dev.run(b"DATA #2+5\n*RST\n*IDN?\n", &mut out).await;

    assert_eq!(remaining, b"");
    assert_eq!(dev.errors.len(), 1, "exactly one error for the malformed block header");
    assert_eq!(dev.log, ["rst", "idn"], "handler of the faulty unit not invoked, later messages executed");
    assert_eq!(&out[..], b"\"dev\"\n");
}

#[tokio::test]
async fn signed_block_length_is_a_syntax_error() {
    let mut dev = Dev::default();
    let mut out: heapless::Vec<u8, 64> = heapless::Vec::new();

    dev.run(b"DATA #2+3abc\n", &mut out).await;

    assert_eq!(dev.errors.len(), 1, "exactly one error for the malformed block header");
    assert!(dev.log.is_empty(), "handler of the faulty unit not invoked: {:?}", dev.log);
}
