use core::future::Future;
use core::pin::Pin;
use core::task::{Context, Poll};

use microscpi::{self as scpi, Adapter, Interface};

struct YieldNow(bool);
impl Future for YieldNow {
    type Output = ();
    fn poll(mut self: Pin<&mut Self>, cx: &mut Context<'_>) -> Poll<()> {
        if self.0 {
            Poll::Ready(())
        }
        else {
            self.0 = true;
            cx.waker().wake_by_ref();
            Poll::Pending
        }
    }
}

#[derive(Default)]
struct Dev {
    log: Vec<String>,
}

impl scpi::ErrorHandler for Dev {
    fn handle_error(&mut self, e: scpi::Error) {
        self.log.push(format!("ERR {:?}", e));
    }
}

#[scpi::interface]
impl Dev {
    #[scpi(cmd = "*RST")]
    async fn rst(&mut self) -> Result<(), scpi::Error> {
        YieldNow(false).await;
        self.log.push("rst".into());
        Ok(())
    }

    #[scpi(cmd = "*IDN?")]
    async fn idn(&mut self) -> Result<&str, scpi::Error> {
        self.log.push("idn".into());
        Ok("dev")
    }

    #[scpi(cmd = "[SYSTem]:TeST:A")]
    async fn ta(&mut self) -> Result<(), scpi::Error> {
        self.log.push("ta".into());
        Ok(())
    }

    #[scpi(cmd = "[SYSTem]:TeST:A?")]
    fn taq(&mut self) -> Result<u8, scpi::Error> {
        self.log.push("taq".into());
        Ok(7)
    }

    #[scpi(cmd = "CONFigure:VOLTage:[DC]")]
    async fn conf(&mut self, v: u32) -> Result<(), scpi::Error> {
        YieldNow(false).await;
        self.log.push(format!("conf {v}"));
        Ok(())
    }

    #[scpi(cmd = "CONFigure:VOLTage:[DC]?")]
    async fn confq(&mut self) -> Result<u32, scpi::Error> {
        self.log.push("confq".into());
        Ok(12)
    }

    #[scpi(cmd = "CONFigure:CURRent")]
    async fn curr(&mut self, v: bool) -> Result<(), scpi::Error> {
        self.log.push(format!("curr {v}"));
        Ok(())
    }

    #[scpi(cmd = "MATH:ADD?")]
    async fn add(&mut self, a: i32, b: i32) -> Result<i64, scpi::Error> {
        YieldNow(false).await;
        self.log.push(format!("add {a} {b}"));
        Ok(a as i64 + b as i64)
    }

    #[scpi(cmd = "STRing:ECHO?")]
    async fn echo(&mut self, s: &str) -> Result<usize, scpi::Error> {
        self.log.push(format!("echo {s:?}"));
        Ok(s.len())
    }

    #[scpi(cmd = "BLOCk:LENgth?")]
    async fn blen(&mut self, s: &[u8]) -> Result<usize, scpi::Error> {
        self.log.push(format!("blen {s:?}"));
        Ok(s.len())
    }

    #[scpi(cmd = "FAIL:CMD")]
    async fn failc(&mut self) -> Result<(), scpi::Error> {
        YieldNow(false).await;
        self.log.push("failc".into());
        Err(scpi::Error::Custom(42, "boom"))
    }

    #[scpi(cmd = "FAIL:QUERy?")]
    async fn failq(&mut self) -> Result<u32, scpi::Error> {
        self.log.push("failq".into());
        Err(scpi::Error::UndefinedHeader)
    }

    #[scpi(cmd = "FAIL:ARG")]
    fn faila(&mut self, v: u8) -> Result<(), scpi::Error> {
        self.log.push(format!("faila {v}"));
        if v == 0 { Err(scpi::Error::Custom(-7, "zero")) } else { Ok(()) }
    }
}

struct Rng(u64);
impl Rng {
    fn next(&mut self) -> u64 {
        self.0 ^= self.0 << 13;
        self.0 ^= self.0 >> 7;
        self.0 ^= self.0 << 17;
        self.0
    }
    fn below(&mut self, n: usize) -> usize {
        (self.next() % n as u64) as usize
    }
    fn pick<'a, T>(&mut self, s: &'a [T]) -> &'a T {
        &s[self.below(s.len())]
    }
}

// Valid unit groups; the first begins absolute so that they can follow anything.
const VALID: &[&str] = &[
    "*RST",
    "*IDN?",
    ":TST:A",
    ":SYST:TEST:A?",
    ":system:tst:a",
    ":CONF:VOLT 5",
    ":CONF:VOLT:DC?",
    ":CONF:VOLT:DC 1;DC 2;DC?",
    ":CONF:VOLT 1;VOLT #HFF;*IDN?;VOLT?",
    ":CONF:CURR ON;CURR 0",
    ":MATH:ADD? 1,-2",
    ":MATH : ADD?   +3 ,  4  ",
    ":STR:ECHO? 'a;b'",
    ":STR:ECHO? \"x'#14y;\"",
    ":STR:ECHO? '#15'",
    ":BLOC:LEN? #13a'b",
    ":BLOC:LEN? #14;\";#",
    ":BLOC:LEN? #10",
    ":BLOC:LEN? #205ab#1'",
    ":FAIL:ARG 3",
    " :TST:A ",
    ":TST:A;A?;:TST:A?",
];

#[derive(Clone, Copy, PartialEq, Debug)]
enum Kind {
    Syntax,
    Undef,
    Count,
    Conv,
    Handler,
}

const FAULTY: &[(&str, Kind)] = &[
    (":CONF:VOLT 1 2", Kind::Syntax),
    (":MATH:ADD? 1,,2", Kind::Syntax),
    (":TST:A!", Kind::Syntax),
    ("*RST*", Kind::Syntax),
    (":CONF:VOLT 'a'x", Kind::Syntax),
    ("", Kind::Syntax),
    (" ", Kind::Syntax),
    (":CONF:VOLT 12ab", Kind::Syntax),
    ("@", Kind::Syntax),
    (":MATH:ADD? 1,2,", Kind::Syntax),
    (":CONF::VOLT 1", Kind::Syntax),
    (":CONF:VOLT: 1", Kind::Syntax),
    (":MATH:ADD?1,2", Kind::Syntax),
    (":STR:ECHO? 'a''b'", Kind::Syntax),
    (":STR:ECHO? 'a;b'\"c;d\"", Kind::Syntax),
    (":CONF:VOLT #", Kind::Syntax),
    (":CONF:VOLT #H", Kind::Syntax),
    (":CONF:VOLT #HG", Kind::Syntax),
    (":CONF:VOLT #B2", Kind::Syntax),
    (":CONF:VOLT 1E", Kind::Syntax),
    (":CONF:VOLT -", Kind::Syntax),
    (":CONF:VOLT .", Kind::Syntax),
    (":CONF:VOLT #0", Kind::Syntax),
    (":CONF:VOLT #1x", Kind::Syntax),
    (":CONF:VOLT #2 1x", Kind::Syntax),
    (":BLOC:LEN? #13abc#13abc", Kind::Syntax),
    (":CONF:VOLT 1,2,3,4,5,6,7,8,9,10,11", Kind::Syntax),
    ("?", Kind::Syntax),
    ("*", Kind::Syntax),
    (":", Kind::Syntax),
    ("*?", Kind::Syntax),
    (":FOO", Kind::Undef),
    ("FOO", Kind::Undef),
    (":FOO 'x;y'", Kind::Undef),
    (":FOO #13a;'", Kind::Undef),
    (":FOO \"';#12\"", Kind::Undef),
    (":CONF:FOO 1", Kind::Undef),
    ("*FOO", Kind::Undef),
    ("*FOO?", Kind::Undef),
    (":CONF", Kind::Undef),
    (":CONF:VOLT:DC:X", Kind::Undef),
    ("*RST?", Kind::Undef),
    ("*IDN", Kind::Undef),
    (":MATH:ADD 1,2", Kind::Undef),
    (":TST", Kind::Undef),
    (":CONF:VOLT", Kind::Count),
    (":CONF:VOLT 1,2", Kind::Count),
    (":MATH:ADD? 1", Kind::Count),
    (":MATH:ADD?", Kind::Count),
    ("*RST 1", Kind::Count),
    ("*IDN? 'x'", Kind::Count),
    (":CONF:VOLT 1,2,3,4,5,6,7,8,9,10", Kind::Count),
    (":CONF:VOLT 'x'", Kind::Conv),
    (":CONF:VOLT 'a;b\"#'", Kind::Conv),
    (":CONF:VOLT -1", Kind::Conv),
    (":CONF:VOLT 99999999999", Kind::Conv),
    (":CONF:VOLT 1.5", Kind::Conv),
    (":CONF:VOLT #12ab", Kind::Conv),
    (":MATH:ADD? 1,ON", Kind::Conv),
    (":STR:ECHO? 5", Kind::Conv),
    (":STR:ECHO? #11'", Kind::Conv),
    (":BLOC:LEN? 'abc'", Kind::Conv),
    (":CONF:CURR 2", Kind::Conv),
    (":CONF:CURR MAYBE", Kind::Conv),
    (":FAIL:CMD", Kind::Handler),
    (":FAIL:QUER?", Kind::Handler),
    (":FAIL:ARG 0", Kind::Handler),
    (":FAIL:ARG #B0", Kind::Handler),
];

fn block_on<F: Future>(f: F) -> F::Output {
    tokio::runtime::Builder::new_current_thread().build().unwrap().block_on(f)
}

type Out = heapless::Vec<u8, 8192>;

fn solo(msg: &[u8]) -> (Vec<String>, Vec<u8>, usize) {
    let mut dev = Dev::default();
    let mut out = Out::new();
    let rem = block_on(dev.run(msg, &mut out)).len();
    (dev.log, out.to_vec(), rem)
}

fn errs(log: &[String]) -> usize {
    log.iter().filter(|l| l.starts_with("ERR")).count()
}

fn gen_faulty_message(rng: &mut Rng) -> (String, String, String, String, Kind) {
    let np = rng.below(3);
    let ns = rng.below(3);
    let mut prefix = Vec::new();
    for _ in 0..np {
        prefix.push(*rng.pick(VALID));
    }
    let mut suffix = Vec::new();
    for _ in 0..ns {
        suffix.push(*rng.pick(VALID));
    }
    let (mut f, mut kind) = *rng.pick(FAULTY);
    while f.trim().is_empty() && suffix.is_empty() {
        (f, kind) = *rng.pick(FAULTY);
    }
    let mut all = prefix.clone();
    all.push(f);
    all.extend(suffix.iter());
    let term = if rng.below(4) == 0 { "\r\n" } else { "\n" };
    (all.join(";") + term, prefix.join(";"), f.to_string(), suffix.join(";"), kind)
}

fn check_faulty(msg: &str, prefix: &str, suffix: &str, kind: Kind) -> Result<(), String> {
    let (log, out, rem) = solo(msg.as_bytes());
    if rem != 0 {
        return Err(format!("remaining {rem}"));
    }
    let (lp, op, _) = if prefix.is_empty() { (vec![], vec![], 0) } else { solo(format!("{prefix}\n").as_bytes()) };
    let (ls, os, _) = if suffix.is_empty() { (vec![], vec![], 0) } else { solo(format!("{suffix}\n").as_bytes()) };
    if errs(&lp) != 0 || errs(&ls) != 0 {
        return Err(format!("generator: prefix/suffix has errors {lp:?} {ls:?}"));
    }
    if errs(&log) != 1 {
        return Err(format!("{} errors: {log:?}", errs(&log)));
    }
    if !log.starts_with(&lp) || !out.starts_with(&op) {
        return Err(format!("prefix not executed normally: {log:?} vs {lp:?}"));
    }
    let rest = &log[lp.len()..];
    let orest = &out[op.len()..];
    let mut i = 0;
    if kind == Kind::Handler {
        if !rest[0].starts_with("fail") {
            return Err(format!("handler not invoked first: {rest:?}"));
        }
        i = 1;
    }
    if !rest[i].starts_with("ERR") {
        return Err(format!("expected error at {i}: {rest:?}"));
    }
    let after = &rest[i + 1..];
    if !(after.is_empty() && orest.is_empty() || after == &ls[..] && orest == &os[..]) {
        return Err(format!("after: {after:?} / {orest:?} expected all {ls:?} or none"));
    }
    Ok(())
}

#[test]
fn explore_single_faulty_message() {
    let mut rng = Rng(0x1234_5678_9abc_def1);
    let mut failures = 0;
    for _ in 0..20000 {
        let (msg, p, _f, s, kind) = gen_faulty_message(&mut rng);
        if let Err(e) = check_faulty(&msg, &p, &s, kind) {
            println!("FAIL {msg:?} ({kind:?}): {e}");
            failures += 1;
            if failures > 40 {
                break;
            }
        }
    }
    // Every faulty unit alone, too.
    for (f, kind) in FAULTY.iter().filter(|(f, _)| !f.trim().is_empty()) {
        if let Err(e) = check_faulty(&format!("{f}\n"), "", "", *kind) {
            println!("FAIL alone {f:?} ({kind:?}): {e}");
            failures += 1;
        }
    }
    assert_eq!(failures, 0);
}

struct Script {
    data: Vec<u8>,
    pos: usize,
    chunks: Vec<usize>,
    chunk: usize,
    out: Vec<u8>,
}

impl Adapter for Script {
    type Error = ();

    async fn read(&mut self, dst: &mut [u8]) -> Result<usize, ()> {
        YieldNow(false).await;
        if self.pos >= self.data.len() {
            return Err(());
        }
        let want = self.chunks[self.chunk % self.chunks.len()];
        self.chunk += 1;
        let n = want.min(dst.len()).min(self.data.len() - self.pos);
        dst[..n].copy_from_slice(&self.data[self.pos..self.pos + n]);
        self.pos += n;
        Ok(n)
    }

    async fn write(&mut self, src: &[u8]) -> Result<(), ()> {
        self.out.extend_from_slice(src);
        Ok(())
    }

    async fn flush(&mut self) -> Result<(), ()> {
        Ok(())
    }
}

const VALID_MSGS: &[&str] = &[
    "\n",
    " \r\n",
    "*RST;\n",
    ":STR:ECHO? 'a\nb'\n",
    ":STR:ECHO? \"\n\n\"\n",
    ":BLOC:LEN? #13\n\n\n;*IDN?\n",
    ":BLOC:LEN? #11\n\n",
    ":CONF:VOLT 3;:STR:ECHO? '\n#15'\n",
];

fn run_process<const N: usize>(data: &[u8], chunks: Vec<usize>) -> (Vec<String>, Vec<u8>) {
    let mut dev = Dev::default();
    let mut ad = Script { data: data.to_vec(), pos: 0, chunks, chunk: 0, out: vec![] };
    let _ = block_on(dev.process::<N, _>(&mut ad));
    (dev.log, ad.out)
}

#[test]
fn explore_sequences() {
    let mut rng = Rng(0xdead_beef_1234_5677);
    let mut failures = 0;
    for iter in 0..40000 {
        let n = 1 + rng.below(6);
        let mut msgs: Vec<String> = Vec::new();
        for _ in 0..n {
            match rng.below(5) {
                0 | 1 => msgs.push(gen_faulty_message(&mut rng).0),
                2 => msgs.push(rng.pick(VALID_MSGS).to_string()),
                _ => {
                    let k = 1 + rng.below(3);
                    let mut u = Vec::new();
                    for _ in 0..k {
                        u.push(*rng.pick(VALID));
                    }
                    msgs.push(u.join(";") + "\n");
                }
            }
        }
        let mut elog = Vec::new();
        let mut eout = Vec::new();
        for m in &msgs {
            let (l, o, r) = solo(m.as_bytes());
            assert_eq!(r, 0, "{m:?}");
            elog.extend(l);
            eout.extend(o);
        }
        let all: String = msgs.concat();
        let (l, o, r) = solo(all.as_bytes());
        if l != elog || o != eout || r != 0 {
            println!("FAIL run {all:?}\n  got {l:?} {:?}\n  exp {elog:?} {:?}", String::from_utf8_lossy(&o), String::from_utf8_lossy(&eout));
            failures += 1;
        }
        let maxlen = msgs.iter().map(|m| m.len()).max().unwrap();
        let nc = 1 + rng.below(4);
        let chunks: Vec<usize> = (0..nc).map(|_| if rng.below(8) == 0 { 0 } else { 1 + rng.below(40) }).collect();
        let chunks = if chunks.iter().all(|c| *c == 0) { vec![1] } else { chunks };
        let _ = iter;
        let nn = maxlen.max(24) + rng.below(3);
        if nn > 80 { continue; }
        let (pl, po) = process_dyn(nn, all.as_bytes(), chunks.clone());
        if maxlen <= 96 && (pl != elog || po != eout) {
            println!("FAIL process {all:?} chunks {chunks:?}\n  got {pl:?} {:?}\n  exp {elog:?} {:?}", String::from_utf8_lossy(&po), String::from_utf8_lossy(&eout));
            failures += 1;
        }
        if failures > 20 {
            break;
        }
    }
    assert_eq!(failures, 0);
}

/// Independent check that a message (ending with its only newline) leaves no
/// string or block open.
fn closed(msg: &[u8]) -> bool {
    let mut i = 0;
    let n = msg.len() - 1;
    while i < n {
        match msg[i] {
            q @ (b'\'' | b'"') => match msg[i + 1..n].iter().position(|b| *b == q) {
                Some(p) => i += p + 2,
                None => return false,
            },
            b'#' if i + 1 < n && (b'1'..=b'9').contains(&msg[i + 1]) => {
                let d = (msg[i + 1] - b'0') as usize;
                if i + 2 + d > n {
                    return false;
                }
                match std::str::from_utf8(&msg[i + 2..i + 2 + d]).ok().and_then(|s| s.parse::<usize>().ok()) {
                    Some(len) => {
                        if i + 2 + d + len > n {
                            return false;
                        }
                        i += 2 + d + len;
                    }
                    None => i += 1,
                }
            }
            _ => i += 1,
        }
    }
    true
}

const TOKENS: &[&str] = &[
    ":", ";", "*", "?", ",", " ", "'", "\"", "#", "1", "2", "3", "H", "CONF", "VOLT", "DC", "TST", "A", "MATH",
    "ADD", "STR", "ECHO", "BLOC", "LEN", "FAIL", "CMD", "ARG", "QUER", "RST", "IDN", "0", "ON", "-", ".", "E",
    "x", "\r", "\t", "@", "\u{80}", ":CONF:VOLT 1", "*RST", "*IDN?", ":MATH:ADD? 1,2", ":STR:ECHO? 'a'", ";:", "SYST", "TEST",
    ":FAIL:CMD", ":FAIL:QUER?", ":BLOC:LEN? #12ab", "CURR",
];

macro_rules! process_n {
    ($n:expr, $data:expr, $chunks:expr, [$($v:literal)*]) => {
        match $n {
            $($v => run_process::<$v>($data, $chunks),)*
            _ => run_process::<200>($data, $chunks),
        }
    };
}

fn process_dyn(n: usize, data: &[u8], chunks: Vec<usize>) -> (Vec<String>, Vec<u8>) {
    process_n!(n, data, chunks, [8 9 10 11 12 13 14 15 16 17 18 19 20 21 22 23 24 25 26 27 28 29 30 31 32 33 34 35 36 37 38 39 40 41 42 43 44 45 46 47 48 49 50 51 52 53 54 55 56 57 58 59 60 61 62 63 64 65 66 67 68 69 70 71 72 73 74 75 76 77 78 79 80])
}

#[test]
fn explore_token_fuzz() {
    let mut rng = Rng(0x0bad_cafe_1234_5671);
    let mut failures = 0;
    let mut checked = 0;
    for _ in 0..60000 {
        let n = 1 + rng.below(4);
        let mut msgs: Vec<Vec<u8>> = Vec::new();
        while msgs.len() < n {
            let k = 1 + rng.below(10);
            let mut m = String::new();
            for _ in 0..k {
                m.push_str(*rng.pick(TOKENS));
            }
            m.push('\n');
            let m = m.into_bytes();
            if closed(&m) {
                msgs.push(m);
            }
        }
        let mut elog = Vec::new();
        let mut eout = Vec::new();
        let mut bad = false;
        for m in &msgs {
            let (l, o, r) = solo(m);
            if r != 0 {
                println!("FAIL solo remaining {:?} {r}", String::from_utf8_lossy(m));
                failures += 1;
                bad = true;
            }
            elog.extend(l);
            eout.extend(o);
        }
        if bad {
            continue;
        }
        let all: Vec<u8> = msgs.concat();
        let (l, o, r) = solo(&all);
        if l != elog || o != eout || r != 0 {
            println!("FAIL run {:?}\n  got {l:?}\n  exp {elog:?}", String::from_utf8_lossy(&all));
            failures += 1;
        }
        let maxlen = msgs.iter().map(|m| m.len()).max().unwrap();
        // the response of a message must fit into N as well
        let maxout = 24;
        let nn = maxlen.max(maxout) + rng.below(3);
        if nn > 80 {
            continue;
        }
        let nc = 1 + rng.below(4);
        let chunks: Vec<usize> = (0..nc).map(|_| if rng.below(8) == 0 { 0 } else { 1 + rng.below(30) }).collect();
        let chunks = if chunks.iter().all(|c| *c == 0) { vec![1] } else { chunks };
        let (pl, po) = process_dyn(nn, &all, chunks.clone());
        checked += 1;
        if pl != elog || po != eout {
            println!("FAIL process N={nn} {:?} chunks {chunks:?}\n  got {pl:?} {:?}\n  exp {elog:?} {:?}", String::from_utf8_lossy(&all), String::from_utf8_lossy(&po), String::from_utf8_lossy(&eout));
            failures += 1;
        }
        if failures > 20 {
            break;
        }
    }
    println!("checked {checked}");
    assert_eq!(failures, 0);
}

#[test]
fn explore_single_unit() {
    let mut rng = Rng(0x0bad_cafe_9999_5671);
    let mut failures = 0;
    for _ in 0..200000 {
        let k = 1 + rng.below(8);
        let mut m = String::new();
        for _ in 0..k {
            let t = *rng.pick(TOKENS);
            if t.contains(';') {
                continue;
            }
            m.push_str(t);
        }
        m.push('\n');
        let m = m.into_bytes();
        if !closed(&m) {
            continue;
        }
        let (l, _o, r) = solo(&m);
        let e = errs(&l);
        let calls = l.len() - e;
        let own = l.iter().any(|x| x.starts_with("fail"));
        if r != 0 || e > 1 || calls > 1 || (e == 1 && calls == 1 && !own) {
            println!("FAIL {:?} {l:?} rem {r}", String::from_utf8_lossy(&m));
            failures += 1;
            if failures > 20 {
                break;
            }
        }
    }
    assert_eq!(failures, 0);
}
