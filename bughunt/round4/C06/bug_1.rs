//! C06 bug 1: a definite-length block header that is cut short by the message
//! terminator (`#9\n`, `#2\n`) is reported as "incomplete" instead of as a
//! syntax error when fewer bytes than the announced number of length digits
//! follow it in the buffer. The faulty message is then not reported, and the
//! complete messages behind it are held back (run) or even thrown away with a
//! buffer overflow (process).

use microscpi::{self as scpi, Adapter, Interface};

#[derive(Default)]
struct Dev {
    log: Vec<String>,
    errors: Vec<scpi::Error>,
}

impl scpi::ErrorHandler for Dev {
    fn handle_error(&mut self, error: scpi::Error) {
        self.errors.push(error);
    }
}

#[scpi::interface]
impl Dev {
    #[scpi(cmd = "*RST")]
    async fn rst(&mut self) -> Result<(), scpi::Error> {
        self.log.push("rst".into());
        Ok(())
    }

    #[scpi(cmd = "*IDN?")]
    async fn idn(&mut self) -> Result<&str, scpi::Error> {
        self.log.push("idn".into());
        Ok("dev")
    }

    #[scpi(cmd = "VOLTage")]
    async fn volt(&mut self, value: u32) -> Result<(), scpi::Error> {
        self.log.push(format!("volt {value}"));
        Ok(())
    }
}

struct Script {
    data: Vec<u8>,
    pos: usize,
    chunk: usize,
    out: Vec<u8>,
}

impl Adapter for Script {
    type Error = ();

    async fn read(&mut self, dst: &mut [u8]) -> Result<usize, ()> {
        if self.pos >= self.data.len() {
            return Err(());
        }
        let n = self.chunk.min(dst.len()).min(self.data.len() - self.pos);
        dst[..n].copy_from_slice(&self.data[self.pos..self.pos + n]);
        self.pos += n;
        Ok(n)
    }

    async fn write(&mut self, src: &[u8]) -> Result<(), ()> {
        self.out.extend_from_slice(src);
        Ok(())
    }

    async fn flush(&mut self) -> Result<(), ()> {
        Ok(())
    }
}

/// The faulty message alone: its only newline is its terminator, no string is
/// open and `#2` followed by a newline cannot be the start of a block (the two
/// bytes behind `#2` would have to be digits).
#[tokio::test]
async fn run_reports_a_block_header_cut_by_the_terminator() {
    let mut dev = Dev::default();
    let mut out: heapless::Vec<u8, 64> = heapless::Vec::new();

    let remaining = dev.run(b"*RST;VOLT #2\n", &mut out).await;

    assert_eq!(dev.log, ["rst"]);
    assert_eq!(dev.errors.len(), 1, "exactly one error for the faulty unit");
    assert_eq!(remaining, b"", "the faulty message is consumed");
}

/// Two complete messages in one buffer. With three more bytes behind them
/// (`b"VOLT #9\n*IDN?\n   "` is enough) the library itself reports one error for
/// the first message and answers the second one; without them nothing happens.
#[tokio::test]
async fn run_executes_the_message_behind_it() {
    let mut dev = Dev::default();
    let mut out: heapless::Vec<u8, 64> = heapless::Vec::new();

    let remaining = dev.run(b"VOLT #9\n*IDN?\n", &mut out).await;

    assert_eq!(dev.errors.len(), 1, "exactly one error for the faulty message");
    assert_eq!(dev.log, ["idn"], "the later message is executed");
    assert_eq!(&out[..], b"\"dev\"\n");
    assert_eq!(remaining, b"");
}

/// Through process: every message fits into the buffer of 16 bytes, but the
/// faulty one stays in it as "incomplete" until the buffer overflows. The
/// overflow throws away the faulty message, the two complete messages behind
/// it and the beginning of the third one - and nothing is reported.
#[tokio::test]
async fn process_keeps_the_later_messages() {
    let mut dev = Dev::default();
    let mut adapter = Script {
        data: b"VOLT #9\n*RST\n*RST\n*RST\n*IDN?\n".to_vec(),
        pos: 0,
        chunk: 5,
        out: Vec::new(),
    };

    let _ = dev.process::<16, _>(&mut adapter).await;

    println!("log {:?} errors {:?}", dev.log, dev.errors);
    assert_eq!(dev.log, ["rst", "rst", "rst", "idn"], "as if `VOLT #9` had never been sent");
    assert_eq!(adapter.out, b"\"dev\"\n");
    assert_eq!(dev.errors.len(), 1, "exactly one error for the faulty message");
}

/// Two such messages in a row: the second one is reported twice. `run` reports
/// its undefined header, cannot find its end (`#9` again), returns it as
/// remaining input, and reports it a second time when it is called again.
#[tokio::test]
async fn process_reports_each_faulty_message_once() {
    let mut dev = Dev::default();
    let mut adapter = Script {
        data: b"VOLT #9\nFOO#9\n*RST\n*RST\n*IDN?\n".to_vec(),
        pos: 0,
        chunk: 64,
        out: Vec::new(),
    };

    let _ = dev.process::<64, _>(&mut adapter).await;

    println!("log {:?} errors {:?}", dev.log, dev.errors);
    assert_eq!(dev.log, ["rst", "rst", "idn"]);
    assert_eq!(dev.errors.len(), 2, "one error for each of the two faulty messages");
}
