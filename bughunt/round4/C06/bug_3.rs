//! C06 bug 3: a faulty message that is longer than the command buffer of
//! `process` is thrown away without any report: no error reaches the error
//! handler and the valid units in front of the faulty one are not executed.

use microscpi::{self as scpi, Adapter, Interface};

#[derive(Default)]
struct Dev {
    log: Vec<String>,
    errors: Vec<scpi::Error>,
}

impl scpi::ErrorHandler for Dev {
    fn handle_error(&mut self, error: scpi::Error) {
        self.errors.push(error);
    }
}

#[scpi::interface]
impl Dev {
    #[scpi(cmd = "*RST")]
    async fn rst(&mut self) -> Result<(), scpi::Error> {
        self.log.push("rst".into());
        Ok(())
    }

    #[scpi(cmd = "*IDN?")]
    async fn idn(&mut self) -> Result<&str, scpi::Error> {
        self.log.push("idn".into());
        Ok("dev")
    }
}

struct Script {
    data: Vec<u8>,
    pos: usize,
    chunk: usize,
    out: Vec<u8>,
}

impl Adapter for Script {
    type Error = ();

    async fn read(&mut self, dst: &mut [u8]) -> Result<usize, ()> {
        if self.pos >= self.data.len() {
            return Err(());
        }
        let n = self.chunk.min(dst.len()).min(self.data.len() - self.pos);
        dst[..n].copy_from_slice(&self.data[self.pos..self.pos + n]);
        self.pos += n;
        Ok(n)
    }

    async fn write(&mut self, src: &[u8]) -> Result<(), ()> {
        self.out.extend_from_slice(src);
        Ok(())
    }

    async fn flush(&mut self) -> Result<(), ()> {
        Ok(())
    }
}

#[tokio::test]
async fn over_long_faulty_message_is_reported() {
    // The same bytes handed to `run` give: rst executed, one error (undefined header).
    let message = b"*RST;UNKNown:HEADer 1,2,3\n*IDN?\n";

    let mut reference = Dev::default();
    let mut out: heapless::Vec<u8, 64> = heapless::Vec::new();
    reference.run(message, &mut out).await;
    assert_eq!(reference.log, ["rst", "idn"]);
    assert_eq!(reference.errors, [scpi::Error::UndefinedHeader]);

    let mut dev = Dev::default();
    let mut adapter = Script { data: message.to_vec(), pos: 0, chunk: 7, out: Vec::new() };
    let _ = dev.process::<16, _>(&mut adapter).await;

    assert_eq!(adapter.out, b"\"dev\"\n", "the later message is not affected");
    assert_eq!(dev.errors.len(), 1, "exactly one error for the faulty message");
    assert_eq!(dev.log, ["rst", "idn"], "the unit before the faulty one is executed");
}
