//! C11 / bug 3 (low confidence, resource bound): white space in front of a
//! message makes `process` drop that message silently.
//!
//! `process::<N, _>` buffers the white space that precedes a message like any
//! other byte of it. N or more white space bytes between two messages fill the
//! buffer "without a terminator", the buffer is thrown away and `discarding` is
//! set, so the following, perfectly short and well-formed message is taken for
//! the tail of an over-long one and discarded up to its terminator: its handler
//! never runs and no error is reported.
//!
//! Cause: microscpi/src/interface.rs, `process`: overflow test
//! `if read_offset >= cmd_buf.len() { read_offset = 0; discarding = true; }`
//! does not distinguish leading white space (which carries no information and
//! could be dropped) from the body of a message.

use microscpi::{self as scpi, Adapter, Interface};

#[derive(Default)]
pub struct Dev {
    log: Vec<String>,
    errors: Vec<scpi::Error>,
}

impl scpi::ErrorHandler for Dev {
    fn handle_error(&mut self, error: scpi::Error) {
        self.errors.push(error);
    }
}

#[scpi::interface]
impl Dev {
    #[scpi(cmd = "*RST")]
    async fn rst(&mut self) -> Result<(), scpi::Error> {
        self.log.push("rst".into());
        Ok(())
    }

    #[scpi(cmd = "CONFigure:MODE")]
    async fn mode(&mut self, on: bool) -> Result<(), scpi::Error> {
        self.log.push(format!("mode {on}"));
        Ok(())
    }

    #[scpi(cmd = "CONFigure:MODE?")]
    async fn mode_q(&mut self) -> Result<bool, scpi::Error> {
        self.log.push("mode?".into());
        Ok(true)
    }
}

/// Delivers the script in reads of at most `chunk` bytes, then fails the read to
/// make `process` return.
struct Script {
    data: Vec<u8>,
    pos: usize,
    chunk: usize,
    out: Vec<u8>,
}

impl Adapter for Script {
    type Error = ();

    async fn read(&mut self, dst: &mut [u8]) -> Result<usize, ()> {
        if self.pos >= self.data.len() {
            return Err(());
        }
        let n = self.chunk.min(dst.len()).min(self.data.len() - self.pos);
        dst[..n].copy_from_slice(&self.data[self.pos..self.pos + n]);
        self.pos += n;
        Ok(n)
    }

    async fn write(&mut self, src: &[u8]) -> Result<(), ()> {
        self.out.extend_from_slice(src);
        Ok(())
    }

    async fn flush(&mut self) -> Result<(), ()> {
        Ok(())
    }
}

async fn observe(data: &[u8], chunk: usize) -> (Vec<String>, Vec<scpi::Error>, Vec<u8>) {
    let mut dev = Dev::default();
    let mut adapter = Script {
        data: data.to_vec(),
        pos: 0,
        chunk,
        out: Vec::new(),
    };
    let _ = dev.process::<32, _>(&mut adapter).await;
    (dev.log, dev.errors, adapter.out)
}

#[tokio::test]
async fn white_space_between_messages_does_not_drop_the_next_message() {
    let reference = observe(b"*RST\nCONF:MODE ON\nCONF:MODE?\n", 7).await;
    assert_eq!(reference.0, vec!["rst", "mode true", "mode?"]);
    assert_eq!(reference.1, vec![]);
    assert_eq!(reference.2, b"1\n");

    for ws in [b' ', b'\r', b'\t', 0u8] {
        for count in [1usize, 8, 31, 32, 33, 64, 100] {
            for chunk in [1usize, 7, 32] {
                let mut data = b"*RST\n".to_vec();
                data.extend(std::iter::repeat(ws).take(count));
                data.extend_from_slice(b"CONF:MODE ON\nCONF:MODE?\n");
                let observed = observe(&data, chunk).await;
                assert_eq!(
                    observed, reference,
                    "{count} white space bytes {ws} in front of the second message, reads of {chunk}"
                );
            }
        }
    }
}
