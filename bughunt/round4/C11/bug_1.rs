//! C11 / bug 1: the case of a character-data mnemonic changes the outcome.
//!
//! `CONF:MODE ON` and `CONF:MODE on` run the handler with `true`, but the same
//! message with the mnemonic written `On` or `oN` (and `Off`, `oFF`, ...) is
//! rejected with -224 "Illegal parameter value" and the handler does not run.
//! Cause: `impl TryInto<bool> for &Value` in microscpi/src/value.rs matches the
//! literal spellings "ON" | "on" | "OFF" | "off" (| "TRUE" | "true" | ...) only.

use microscpi::{self as scpi, Interface};

#[derive(Default)]
pub struct Dev {
    log: Vec<String>,
    errors: Vec<scpi::Error>,
}

impl scpi::ErrorHandler for Dev {
    fn handle_error(&mut self, error: scpi::Error) {
        self.errors.push(error);
    }
}

#[scpi::interface]
impl Dev {
    #[scpi(cmd = "CONFigure:MODE")]
    async fn mode(&mut self, on: bool) -> Result<(), scpi::Error> {
        self.log.push(format!("mode {on}"));
        Ok(())
    }
}

async fn observe(message: &[u8]) -> (Vec<String>, Vec<scpi::Error>, Vec<u8>) {
    let mut dev = Dev::default();
    let mut out: Vec<u8> = Vec::new();
    let rest = dev.run(message, &mut out).await;
    assert!(rest.is_empty());
    (dev.log, dev.errors, out)
}

/// All 2^n upper/lower case spellings of `word`.
fn spellings(word: &str) -> Vec<String> {
    let letters: Vec<char> = word.chars().collect();
    (0..1u32 << letters.len())
        .map(|mask| {
            letters
                .iter()
                .enumerate()
                .map(|(i, c)| {
                    if mask >> i & 1 == 1 {
                        c.to_ascii_lowercase()
                    }
                    else {
                        c.to_ascii_uppercase()
                    }
                })
                .collect()
        })
        .collect()
}

#[tokio::test]
async fn case_of_character_data_mnemonic_does_not_matter() {
    for word in ["ON", "OFF"] {
        let reference = observe(format!("CONF:MODE {word}\n").as_bytes()).await;
        assert_eq!(reference.1, vec![], "the reference spelling is accepted");
        assert_eq!(reference.0.len(), 1, "the reference spelling runs the handler");

        for spelling in spellings(word) {
            // the header is varied as well, to show that only the parameter matters
            for header in ["CONF:MODE", "conf:mode", "Configure:Mode"] {
                let message = format!("{header} {spelling}\n");
                let observed = observe(message.as_bytes()).await;
                assert_eq!(
                    observed, reference,
                    "{message:?} must behave like \"CONF:MODE {word}\\n\""
                );
            }
        }
    }
}
