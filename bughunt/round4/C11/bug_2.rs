//! C11 / bug 2: white space before a unit that has not arrived yet is reported
//! as -113 "Undefined header".
//!
//! `Interface::run` accepts partial input: what cannot be parsed yet is returned
//! so that the caller passes it again together with the following bytes. This
//! works at every position where white space is permitted (`run(b"*RST ")`,
//! `run(b"MATH:ADD? 1, ")` return the input without reporting anything) except
//! in front of a unit: if the chunk ends in the white space that precedes the
//! next unit / message, an UndefinedHeader error is reported, although the
//! white space is correctly returned as unparsed. The same bytes without that
//! white space report nothing.
//!
//! Cause: microscpi/src/parser.rs. After the leading white space is skipped the
//! input is empty; `compound_command_program_header` fails with `Incomplete`,
//! `command_program_header` throws that away (`.or_else(|_| common...)`) and
//! `common_command_program_header` turns the `Incomplete` of `tag(b'*')` into
//! `Error::UndefinedHeader` (`map_err(|_| Error::UndefinedHeader)`), which is a
//! `FatalError`.

use microscpi::{self as scpi, Interface};

#[derive(Default)]
pub struct Dev {
    log: Vec<String>,
    errors: Vec<scpi::Error>,
}

impl scpi::ErrorHandler for Dev {
    fn handle_error(&mut self, error: scpi::Error) {
        self.errors.push(error);
    }
}

#[scpi::interface]
impl Dev {
    #[scpi(cmd = "*RST")]
    async fn rst(&mut self) -> Result<(), scpi::Error> {
        self.log.push("rst".into());
        Ok(())
    }

    #[scpi(cmd = "CONFigure:MODE")]
    async fn mode(&mut self, on: bool) -> Result<(), scpi::Error> {
        self.log.push(format!("mode {on}"));
        Ok(())
    }
}

/// Feeds the chunks to `run` the way its contract asks for: the unparsed rest
/// of a chunk is put in front of the next one.
async fn feed(chunks: &[&[u8]]) -> (Vec<String>, Vec<scpi::Error>, Vec<u8>) {
    let mut dev = Dev::default();
    let mut out: Vec<u8> = Vec::new();
    let mut pending: Vec<u8> = Vec::new();
    for chunk in chunks {
        pending.extend_from_slice(chunk);
        let rest = dev.run(&pending, &mut out).await.to_vec();
        pending = rest;
    }
    assert!(pending.is_empty(), "everything has been consumed");
    (dev.log, dev.errors, out)
}

#[tokio::test]
async fn white_space_before_the_next_message_is_not_an_error() {
    // two messages without any optional white space
    let reference = feed(&[b"*RST\n", b"CONF:MODE ON\n"]).await;
    assert_eq!(reference.0, vec!["rst", "mode true"]);
    assert_eq!(reference.1, vec![]);

    // the same two messages, the second one preceded by one white space byte
    // that happens to arrive together with the first message
    for ws in (0u8..=9).chain(11..=32) {
        let first = [b'*', b'R', b'S', b'T', b'\n', ws];
        let observed = feed(&[&first, b"CONF:MODE ON\n"]).await;
        assert_eq!(
            observed, reference,
            "white space byte {ws} in front of the second message"
        );
    }
}

#[tokio::test]
async fn white_space_before_the_next_unit_is_not_an_error() {
    let reference = feed(&[b"*RST;", b"CONF:MODE ON\n"]).await;
    assert_eq!(reference.0, vec!["rst", "mode true"]);
    assert_eq!(reference.1, vec![]);

    let observed = feed(&[b"*RST; ", b"CONF:MODE ON\n"]).await;
    assert_eq!(observed, reference);
}

#[tokio::test]
async fn other_white_space_positions_at_the_end_of_a_chunk_are_fine() {
    // control: the same chunking at the other permitted positions works
    let reference = feed(&[b"CONF:MODE ON;*RST\n"]).await;
    assert_eq!(reference.1, vec![]);
    assert_eq!(feed(&[b"CONF:MODE ", b"ON;*RST\n"]).await, reference);
    assert_eq!(feed(&[b"CONF:MODE ON ", b";*RST\n"]).await, reference);
    assert_eq!(feed(&[b"CONF:MODE ON;*RST ", b"\n"]).await, reference);
    assert_eq!(feed(&[b"CONF:MODE ON;*RST\r", b"\n"]).await, reference);
}
