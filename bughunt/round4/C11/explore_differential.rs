//! Exploratory differential harness used for the C11 bug hunt (PASSES on the
//! unmodified library): random well-formed messages are rendered once in a
//! canonical form and once with random case, short/long forms, white space
//! bytes (0-9, 11-32) at all permitted positions and LF / CR LF; handler calls
//! with arguments, reported errors and responses are compared through `run`
//! and through `process` (random read chunking, empty reads, suspending
//! handlers, buffer of 512 bytes, or of 40 bytes when every message fits).
use microscpi::{self as scpi, Adapter, Interface};

#[derive(Default)]
pub struct Dev {
    log: Vec<String>,
    errors: Vec<scpi::Error>,
    suspend: bool,
}

impl scpi::ErrorHandler for Dev {
    fn handle_error(&mut self, error: scpi::Error) {
        self.errors.push(error);
    }
}

struct YieldOnce(bool);
impl std::future::Future for YieldOnce {
    type Output = ();
    fn poll(
        mut self: std::pin::Pin<&mut Self>, cx: &mut std::task::Context<'_>,
    ) -> std::task::Poll<()> {
        if self.0 {
            std::task::Poll::Ready(())
        }
        else {
            self.0 = true;
            cx.waker().wake_by_ref();
            std::task::Poll::Pending
        }
    }
}

#[scpi::interface]
impl Dev {
    #[scpi(cmd = "*IDN?")]
    async fn idn(&mut self) -> Result<&str, scpi::Error> {
        self.log.push("idn".into());
        Ok("A,B,C,D")
    }

    #[scpi(cmd = "*RST")]
    async fn rst(&mut self) -> Result<(), scpi::Error> {
        self.log.push("rst".into());
        Ok(())
    }

    #[scpi(cmd = "CONFigure:MODE")]
    async fn mode(&mut self, on: bool) -> Result<(), scpi::Error> {
        if self.suspend {
            YieldOnce(false).await;
        }
        self.log.push(format!("mode {on}"));
        Ok(())
    }

    #[scpi(cmd = "CONFigure:MODE?")]
    async fn mode_q(&mut self) -> Result<bool, scpi::Error> {
        self.log.push("mode?".into());
        Ok(true)
    }

    #[scpi(cmd = "SOURce:VOLTage:[LEVel]")]
    async fn volt(&mut self, v: f64) -> Result<(), scpi::Error> {
        self.log.push(format!("volt {v}"));
        Ok(())
    }

    #[scpi(cmd = "SOURce:VOLTage:[LEVel]?")]
    fn volt_q(&mut self) -> Result<f64, scpi::Error> {
        self.log.push("volt?".into());
        Ok(1.5)
    }

    #[scpi(cmd = "SOURce:CURRent")]
    fn curr(&mut self, v: i32) -> Result<(), scpi::Error> {
        self.log.push(format!("curr {v}"));
        Ok(())
    }

    #[scpi(cmd = "MATH:ADD?")]
    async fn add(&mut self, a: i32, b: i32) -> Result<i32, scpi::Error> {
        if self.suspend {
            YieldOnce(false).await;
        }
        self.log.push(format!("add {a} {b}"));
        Ok(a + b)
    }

    #[scpi(cmd = "DATA:STRing")]
    fn data_str(&mut self, s: &str) -> Result<(), scpi::Error> {
        self.log.push(format!("str {s:?}"));
        Ok(())
    }

    #[scpi(cmd = "DATA:STRing?")]
    fn data_str_q(&mut self, s: &str, n: u8) -> Result<(&str, u8), scpi::Error> {
        self.log.push(format!("str? {s:?} {n}"));
        Ok(("x\"y", n))
    }

    #[scpi(cmd = "DATA:BLOCk")]
    fn data_blk(&mut self, s: &[u8], n: u16) -> Result<(), scpi::Error> {
        self.log.push(format!("blk {s:?} {n}"));
        Ok(())
    }

    #[scpi(cmd = "DATA:FAIL?")]
    fn data_fail(&mut self) -> Result<u8, scpi::Error> {
        self.log.push("fail".into());
        Err(scpi::Error::ExecutionError)
    }
}

struct Rng(u64);
impl Rng {
    fn next(&mut self) -> u64 {
        self.0 ^= self.0 << 13;
        self.0 ^= self.0 >> 7;
        self.0 ^= self.0 << 17;
        self.0
    }
    fn below(&mut self, n: usize) -> usize {
        (self.next() % n as u64) as usize
    }
    fn coin(&mut self) -> bool {
        self.next() & 1 == 1
    }
}

#[derive(Clone)]
struct Unit {
    abs: bool,
    /// (short, long)
    parts: Vec<(&'static str, &'static str)>,
    common: Option<&'static str>,
    query: bool,
    args: Vec<Vec<u8>>,
}

fn gen_arg(rng: &mut Rng, kind: u8) -> Vec<u8> {
    match kind {
        // bool (kept in the spellings the library knows, case is not varied here)
        0 => [&b"ON"[..], b"OFF", b"1", b"0"][rng.below(4)].to_vec(),
        // float
        1 => [&b"1.5"[..], b"-2", b"+.5e3", b"1.E-2", b"7"][rng.below(5)].to_vec(),
        // int
        2 => [&b"1"[..], b"-2", b"#H1f", b"#b101", b"#Q17", b"+33"][rng.below(6)].to_vec(),
        // string
        3 => [
            &b"'abc'"[..],
            b"\"a;b\"",
            b"'x\ny'",
            b"\"a , b\"",
            b"'#15'",
            b"\"it's\"",
            b"''",
        ][rng.below(7)]
        .to_vec(),
        // block
        4 => [&b"#13a\nb"[..], b"#10", b"#205h;,'\"\n", b"#14 , ;"][rng.below(4)].to_vec(),
        // small uint
        _ => [&b"0"[..], b"7", b"255"][rng.below(3)].to_vec(),
    }
}

fn gen_unit(rng: &mut Rng, rel_ok: Option<&'static str>) -> (Unit, Option<&'static str>) {
    // returns the unit and the "group" (first mnemonic) to allow relative followers
    let conf = ("CONF", "CONFIGURE");
    let sour = ("SOUR", "SOURCE");
    let data = ("DATA", "DATA");
    let math = ("MATH", "MATH");
    let choice = rng.below(14);
    let (group, mut parts, query, kinds): (_, Vec<(&str, &str)>, bool, Vec<u8>) = match choice {
        0 => ("", vec![], true, vec![]),
        1 => ("", vec![], false, vec![]),
        2 => ("CONF", vec![conf, ("MODE", "MODE")], false, vec![0]),
        3 => ("CONF", vec![conf, ("MODE", "MODE")], true, vec![]),
        4 => ("SOURV", vec![sour, ("VOLT", "VOLTAGE"), ("LEV", "LEVEL")], false, vec![1]),
        5 => ("SOUR", vec![sour, ("VOLT", "VOLTAGE")], false, vec![1]),
        6 => ("SOURV", vec![sour, ("VOLT", "VOLTAGE"), ("LEV", "LEVEL")], true, vec![]),
        7 => ("SOUR", vec![sour, ("CURR", "CURRENT")], false, vec![2]),
        8 => ("MATH", vec![math, ("ADD", "ADD")], true, vec![2, 2]),
        9 => ("DATA", vec![data, ("STR", "STRING")], false, vec![3]),
        10 => ("DATA", vec![data, ("STR", "STRING")], true, vec![3, 5]),
        11 => ("DATA", vec![data, ("BLOC", "BLOCK")], false, vec![4, 5]),
        12 => ("DATA", vec![data, ("FAIL", "FAIL")], true, vec![]),
        _ => ("SOUR", vec![sour, ("VOLT", "VOLTAGE")], true, vec![]),
    };
    let common = match choice {
        0 => Some("*IDN"),
        1 => Some("*RST"),
        _ => None,
    };
    let mut abs = rng.coin();
    if common.is_none() {
        if let Some(g) = rel_ok {
            if g == group && rng.coin() {
                // relative to the previous header
                let last = parts.pop().unwrap();
                parts = vec![last];
                abs = false;
            }
        }
    }
    else {
        abs = false;
    }
    let args = kinds.iter().map(|k| gen_arg(rng, *k)).collect();
    let new_group = if common.is_some() { rel_ok } else { Some(group) };
    (
        Unit {
            abs,
            parts,
            common,
            query,
            args,
        },
        new_group,
    )
}

fn ws(rng: &mut Rng, min: usize, vary: bool) -> Vec<u8> {
    if !vary {
        return vec![b' '; min];
    }
    let n = min + if rng.below(3) == 0 { rng.below(3) } else { 0 };
    (0..n)
        .map(|_| {
            let b = rng.below(32) as u8; // 0..=31 -> map 10 to 32
            if b == 10 {
                32
            }
            else {
                b
            }
        })
        .collect()
}

fn recase(rng: &mut Rng, s: &str, vary: bool) -> Vec<u8> {
    s.bytes()
        .map(|b| {
            if vary && rng.coin() {
                b.to_ascii_lowercase()
            }
            else {
                b
            }
        })
        .collect()
}

fn render(rng: &mut Rng, units: &[Unit], vary: bool, first_abs_fixed: bool) -> Vec<u8> {
    let mut out = Vec::new();
    for (i, u) in units.iter().enumerate() {
        if i > 0 {
            out.extend(ws(rng, 0, vary)); // before ';'
            out.push(b';');
        }
        out.extend(ws(rng, 0, vary)); // before a unit
        if let Some(c) = u.common {
            out.extend(recase(rng, c, vary));
        }
        else {
            let _ = first_abs_fixed;
            if u.abs {
                out.push(b':');
            }
            for (j, (s, l)) in u.parts.iter().enumerate() {
                if j > 0 {
                    out.push(b':');
                }
                let m = if vary && rng.coin() { s } else { l };
                out.extend(recase(rng, m, vary));
            }
        }
        if u.query {
            out.push(b'?');
        }
        if !u.args.is_empty() {
            out.extend(ws(rng, 1, vary));
            for (j, a) in u.args.iter().enumerate() {
                if j > 0 {
                    out.extend(ws(rng, 0, vary));
                    out.push(b',');
                    out.extend(ws(rng, 0, vary));
                }
                out.extend(a);
            }
        }
    }
    out.extend(ws(rng, 0, vary)); // before terminator
    if vary && rng.coin() {
        out.push(b'\r');
    }
    out.push(b'\n');
    out
}

struct Script {
    chunks: Vec<Vec<u8>>,
    pos: usize,
    off: usize,
    out: Vec<u8>,
    writes: Vec<Vec<u8>>,
}

impl Adapter for Script {
    type Error = ();
    async fn read(&mut self, dst: &mut [u8]) -> Result<usize, ()> {
        if self.pos >= self.chunks.len() {
            return Err(());
        }
        let chunk = &self.chunks[self.pos];
        let n = (chunk.len() - self.off).min(dst.len());
        dst[..n].copy_from_slice(&chunk[self.off..self.off + n]);
        self.off += n;
        if self.off >= chunk.len() {
            self.pos += 1;
            self.off = 0;
        }
        Ok(n)
    }
    async fn write(&mut self, src: &[u8]) -> Result<(), ()> {
        self.out.extend_from_slice(src);
        self.writes.push(src.to_vec());
        Ok(())
    }
    async fn flush(&mut self) -> Result<(), ()> {
        Ok(())
    }
}

type Obs = (Vec<String>, Vec<scpi::Error>, Vec<u8>);

async fn via_run(msgs: &[Vec<u8>]) -> Obs {
    let mut dev = Dev::default();
    let mut out: Vec<u8> = Vec::new();
    for m in msgs {
        let rest = dev.run(m, &mut out).await;
        assert!(rest.is_empty(), "run left {:?} of {:?}", rest, m);
    }
    (dev.log, dev.errors, out)
}

async fn via_process(stream: &[u8], rng: &mut Rng, suspend: bool, small: bool) -> Obs {
    let mut dev = Dev::default();
    dev.suspend = suspend;
    let mut chunks = Vec::new();
    let mut i = 0;
    let mode = rng.below(3);
    while i < stream.len() {
        let n = match mode {
            0 => 1,
            1 => 1 + rng.below(7),
            _ => stream.len(),
        }
        .min(stream.len() - i);
        if rng.below(5) == 0 {
            chunks.push(Vec::new());
        }
        chunks.push(stream[i..i + n].to_vec());
        i += n;
    }
    let mut ad = Script {
        chunks,
        pos: 0,
        off: 0,
        out: Vec::new(),
        writes: Vec::new(),
    };
    if small { let _ = dev.process::<40, _>(&mut ad).await; } else { let _ = dev.process::<512, _>(&mut ad).await; }
    (dev.log, dev.errors, ad.out)
}

#[tokio::test]
async fn differential() {
    let mut rng = Rng(0x9E3779B97F4A7C15);
    for iter in 0..60000 {
        let nmsg = 1 + rng.below(3);
        let mut canon_msgs = Vec::new();
        let mut var_msgs = Vec::new();
        for _ in 0..nmsg {
            let nunits = 1 + rng.below(4);
            let mut units = Vec::new();
            let mut group = None;
            for k in 0..nunits {
                let (u, g) = gen_unit(&mut rng, group);
                let _ = k;
                group = g;
                units.push(u);
            }
            canon_msgs.push(render(&mut rng, &units, false, true));
            var_msgs.push(render(&mut rng, &units, true, true));
        }
        let a = via_run(&canon_msgs).await;
        let b = via_run(&var_msgs).await;
        assert_eq!(
            a,
            b,
            "iter {iter}: run differs\ncanon {:?}\nvar   {:?}",
            canon_msgs.iter().map(|m| String::from_utf8_lossy(m).into_owned()).collect::<Vec<_>>(),
            var_msgs.iter().map(|m| String::from_utf8_lossy(m).into_owned()).collect::<Vec<_>>()
        );
        let stream: Vec<u8> = var_msgs.concat();
        let suspend = rng.coin();
        let small = var_msgs.iter().all(|m| m.len() <= 40);
        let c = via_process(&stream, &mut rng, suspend, small).await;
        assert_eq!(
            a,
            c,
            "iter {iter}: process differs\ncanon {:?}\nvar   {:?}",
            canon_msgs.iter().map(|m| String::from_utf8_lossy(m).into_owned()).collect::<Vec<_>>(),
            String::from_utf8_lossy(&stream)
        );
    }
}
