//! C12 bug 1: the parser answers `Incomplete` for input that does NOT end inside a unit.
//!
//! `arbitrary_program_data` (parser.rs) returns `Incomplete` as soon as fewer bytes than the
//! announced number of length digits follow `#<n>`, without looking at the bytes that ARE there.
//! `BLK #9\n*IDN?\n` is therefore "incomplete" although the byte behind `#9` is a newline, which
//! can never be a length digit: no continuation of `BLK #9\n` is ever accepted, the verdict that
//! is eventually given (an error, once 9 bytes are available) does not need those bytes, and the
//! library itself then treats the first newline as the message terminator (`skip_message`).
//! `skip_message` (interface.rs) has the same flaw, so `process` also waits when the header is
//! undefined and the parser's verdict is an error.
//!
//! Consequences shown below through `Interface::process`: a complete, valid query behind the
//! faulty message is not answered; a later unit is resolved against the wrong path node; the
//! same unit is rejected (reported) twice.

use std::collections::VecDeque;

use microscpi::parser::{parse, ParseError};
use microscpi::{self as scpi, Adapter, Error, ErrorHandler, Interface};

#[derive(Default)]
struct Dev {
    log: Vec<String>,
    errors: Vec<Error>,
}

impl ErrorHandler for Dev {
    fn handle_error(&mut self, error: Error) {
        self.errors.push(error);
    }
}

#[scpi::interface]
impl Dev {
    #[scpi(cmd = "*IDN?")]
    async fn idn(&mut self) -> Result<&str, Error> {
        self.log.push("*IDN?".into());
        Ok("dev")
    }

    #[scpi(cmd = "BLK")]
    async fn blk(&mut self, data: &'_ [u8]) -> Result<(), Error> {
        self.log.push(format!("BLK {:?}", data));
        Ok(())
    }

    #[scpi(cmd = "A")]
    async fn a(&mut self, s: &'_ str) -> Result<(), Error> {
        self.log.push(format!("A {:?}", s));
        Ok(())
    }

    #[scpi(cmd = "A:B")]
    async fn ab(&mut self) -> Result<(), Error> {
        self.log.push("A:B".into());
        Ok(())
    }

    #[scpi(cmd = "A:A")]
    async fn aa(&mut self, s: &'_ str) -> Result<(), Error> {
        self.log.push(format!("A:A {:?}", s));
        Ok(())
    }
}

/// Delivers the scripted chunks one per `read` and ends `process` with an error afterwards.
struct Script {
    chunks: VecDeque<Vec<u8>>,
    out: Vec<u8>,
}

impl Script {
    fn new(chunks: &[&[u8]]) -> Script {
        Script {
            chunks: chunks.iter().map(|c| c.to_vec()).collect(),
            out: Vec::new(),
        }
    }
}

impl Adapter for Script {
    type Error = ();

    async fn read(&mut self, dst: &mut [u8]) -> Result<usize, ()> {
        let chunk = self.chunks.pop_front().ok_or(())?;
        assert!(chunk.len() <= dst.len());
        dst[..chunk.len()].copy_from_slice(&chunk);
        Ok(chunk.len())
    }

    async fn write(&mut self, src: &[u8]) -> Result<(), ()> {
        self.out.extend_from_slice(src);
        Ok(())
    }

    async fn flush(&mut self) -> Result<(), ()> {
        Ok(())
    }
}

/// The literal statement: 'incomplete' is returned only when the input ends inside a unit.
/// None of these inputs ends inside a unit: behind `#<n>` follows a message (or unit)
/// terminator where only a length digit could continue the unit, so the unit is already known
/// to be faulty and the input even contains complete messages behind it.
#[test]
fn incomplete_although_the_input_does_not_end_inside_a_unit() {
    let dev = Dev::default();
    let root = dev.root_node();

    for input in [
        &b"BLK #2\n"[..],
        &b"BLK #9\n*IDN?\n"[..],
        &b"BLK #9\n*IDN?\n\n"[..],
        &b"BLK 1,#3;\n"[..],
        &b"BLK #9X\n"[..],
    ] {
        let verdict = parse(root, root, input);
        assert!(
            !matches!(verdict, Err(ParseError::Incomplete)),
            "{:?} is called incomplete",
            String::from_utf8_lossy(input)
        );
    }

    // The verdict that is given as soon as nine bytes are there is an error, and it is the
    // same for every continuation: it never depended on the bytes the parser waited for.
    assert!(matches!(
        parse(root, root, b"BLK #9\n*IDN?\n\n\n\n"),
        Err(ParseError::SoftError(_) | ParseError::FatalError(_))
    ));
}

/// A streaming caller (`process`) trusts the verdict and waits: the query behind the faulty
/// message is never answered, and the controller that waits for the answer sends nothing more.
#[tokio::test]
async fn query_behind_the_faulty_message_is_not_answered() {
    let mut dev = Dev::default();
    let mut adapter = Script::new(&[b"BLK #9\n", b"*IDN?\n"]);
    let _ = dev.process::<64, _>(&mut adapter).await;

    assert_eq!(
        String::from_utf8_lossy(&adapter.out),
        "\"dev\"\n",
        "log {:?}, errors {:?}",
        dev.log,
        dev.errors
    );
    assert_eq!(dev.errors.len(), 1);
}

/// Same with an undefined header: here the parser's verdict is an error right away, the waiting
/// is done by `skip_message`.
#[tokio::test]
async fn query_behind_the_faulty_message_is_not_answered_undefined_header() {
    let mut dev = Dev::default();
    let mut adapter = Script::new(&[b"NOPE #9\n", b"*IDN?\n"]);
    let _ = dev.process::<64, _>(&mut adapter).await;

    assert_eq!(String::from_utf8_lossy(&adapter.out), "\"dev\"\n");
    assert_eq!(dev.errors.len(), 1);
}

/// Because the newline of `BLK #2\n` was first taken for a part of the unit and later for the
/// terminator, `process` runs two messages at once, executes the beginning of the second one
/// before it is complete and resolves its last unit against the root instead of `A`.
#[tokio::test]
async fn later_unit_is_resolved_against_the_wrong_node() {
    let mut dev = Dev::default();
    let mut adapter = Script::new(&[b"BLK #2\n", b"A:B;A '\n", b"'\n"]);
    let _ = dev.process::<64, _>(&mut adapter).await;

    // `A:B;A '\n'` is one message: the second unit is `A:A` with the string "\n".
    assert_eq!(dev.log, ["A:B", "A:A \"\\n\""]);
}

/// The unit `'...` is rejected twice, i.e. the first verdict was not final for `process`.
#[tokio::test]
async fn unit_is_rejected_twice() {
    let mut dev = Dev::default();
    let mut adapter = Script::new(&[b"BLK #2\n", b"'\n", b"*IDN?\n", b"'\n"]);
    let _ = dev.process::<64, _>(&mut adapter).await;

    // One error for `BLK #2`, one for the message `'\n*IDN?\n'`.
    assert_eq!(dev.errors.len(), 2, "{:?}", dev.errors);
}
