//! C01: the standard commands are requested in the attribute with a path
//! (`microscpi::StandardCommands`), the macro accepts the attribute, but the commands do
//! not exist.
use microscpi::{self as scpi, Interface};

pub struct Dev {
    errors: scpi::StaticErrorQueue<4>,
}

impl scpi::ErrorCommands for Dev {
    fn error_queue(&mut self) -> &mut impl scpi::ErrorQueue {
        &mut self.errors
    }
}

impl scpi::StandardCommands for Dev {}

#[scpi::interface(scpi::StandardCommands, scpi::ErrorCommands)]
impl Dev {
    #[scpi(cmd = "FOO?")]
    async fn foo(&mut self) -> Result<u8, scpi::Error> {
        Ok(7)
    }
}

#[tokio::test]
async fn requested_standard_commands_exist() {
    use scpi::ErrorQueue;

    let mut dev = Dev { errors: scpi::StaticErrorQueue::new() };
    let mut out: heapless::Vec<u8, 64> = heapless::Vec::new();

    dev.run(b"FOO?\n", &mut out).await;
    assert_eq!(&out[..], b"7\n");
    out.clear();

    dev.run(b"SYSTem:VERSion?\n", &mut out).await;
    assert_eq!(dev.errors.error_count(), 0, "SYSTem:VERSion? was requested but is undefined");
    assert_eq!(&out[..], b"1999.0\n");
    out.clear();

    dev.run(b"SYST:ERR:COUN?\n", &mut out).await;
    assert_eq!(&out[..], b"0\n");
    out.clear();

    dev.run(b"SYST:ERR?\n", &mut out).await;
    assert_eq!(&out[..], b"0,\"\"\n");
}
