//! C01 (low confidence, rather C05): a message that does not fit into the buffer of
//! `process` is discarded only up to the next newline, even if that newline is inside a
//! string. The rest of the string is then executed: `*RST` inside string data invokes
//! the `*RST` handler although no program header addressed it.
use microscpi::{self as scpi, Adapter, Interface};

pub struct Dev {
    calls: Vec<String>,
    errs: Vec<scpi::Error>,
}

impl scpi::ErrorHandler for Dev {
    fn handle_error(&mut self, error: scpi::Error) {
        self.errs.push(error);
    }
}

#[scpi::interface]
impl Dev {
    #[scpi(cmd = "*RST")]
    async fn rst(&mut self) -> Result<(), scpi::Error> {
        self.calls.push("*RST".into());
        Ok(())
    }

    #[scpi(cmd = "*IDN?")]
    async fn idn(&mut self) -> Result<&str, scpi::Error> {
        self.calls.push("*IDN?".into());
        Ok("x")
    }

    #[scpi(cmd = "TEXT")]
    async fn text(&mut self, text: &str) -> Result<(), scpi::Error> {
        self.calls.push(format!("TEXT {text:?}"));
        Ok(())
    }
}

pub struct Script {
    data: Vec<u8>,
}

impl Adapter for Script {
    type Error = ();

    async fn read(&mut self, dst: &mut [u8]) -> Result<usize, ()> {
        if self.data.is_empty() {
            return Err(());
        }
        let n = self.data.len().min(dst.len());
        dst[..n].copy_from_slice(&self.data[..n]);
        self.data.drain(..n);
        Ok(n)
    }

    async fn write(&mut self, _src: &[u8]) -> Result<(), ()> {
        Ok(())
    }

    async fn flush(&mut self) -> Result<(), ()> {
        Ok(())
    }
}

async fn process<const N: usize>(input: &[u8]) -> Vec<String> {
    let mut dev = Dev { calls: vec![], errs: vec![] };
    let mut adapter = Script { data: input.to_vec() };
    let _ = dev.process::<N, _>(&mut adapter).await;
    dev.calls
}

const INPUT: &[u8] = b"TEXT \"aaaaaaaaaaaaaaaaaaaa\n*RST\n\"\n*IDN?\n";

#[tokio::test]
async fn reference_with_a_buffer_that_is_large_enough() {
    assert_eq!(process::<64>(INPUT).await, ["TEXT \"aaaaaaaaaaaaaaaaaaaa\\n*RST\\n\"", "*IDN?"]);
}

#[tokio::test]
async fn string_data_of_an_over_long_message_is_not_executed() {
    // The first message is longer than the buffer and is dropped; `*IDN?` is the only
    // program header left.
    assert_eq!(process::<16>(INPUT).await, ["*IDN?"]);
}
