//! C01: behind a faulty message whose block length field runs into the terminator
//! (`X #31\n`), `process` executes the next compound message in two pieces and forgets
//! the header path in between: `A:B;C "x\ny"` invokes the root command `C` instead of
//! `A:C`, or reports 'Undefined header' for a correctly spelled header.
use microscpi::{self as scpi, Adapter, Interface};

pub struct Dev {
    calls: Vec<String>,
    errs: Vec<scpi::Error>,
}

impl scpi::ErrorHandler for Dev {
    fn handle_error(&mut self, error: scpi::Error) {
        self.errs.push(error);
    }
}

#[scpi::interface]
impl Dev {
    #[scpi(cmd = "A:B")]
    async fn a_b(&mut self) -> Result<(), scpi::Error> {
        self.calls.push("A:B".into());
        Ok(())
    }

    #[scpi(cmd = "A:C")]
    async fn a_c(&mut self, text: &str) -> Result<(), scpi::Error> {
        self.calls.push(format!("A:C {text:?}"));
        Ok(())
    }

    #[scpi(cmd = "A:D")]
    async fn a_d(&mut self, text: &str) -> Result<(), scpi::Error> {
        self.calls.push(format!("A:D {text:?}"));
        Ok(())
    }

    #[scpi(cmd = "C")]
    async fn c(&mut self, text: &str) -> Result<(), scpi::Error> {
        self.calls.push(format!("C {text:?}"));
        Ok(())
    }
}

/// Delivers the script in one read and then fails, which ends `process`.
pub struct Script {
    data: Vec<u8>,
}

impl Adapter for Script {
    type Error = ();

    async fn read(&mut self, dst: &mut [u8]) -> Result<usize, ()> {
        if self.data.is_empty() {
            return Err(());
        }
        let n = self.data.len().min(dst.len());
        dst[..n].copy_from_slice(&self.data[..n]);
        self.data.drain(..n);
        Ok(n)
    }

    async fn write(&mut self, _src: &[u8]) -> Result<(), ()> {
        Ok(())
    }

    async fn flush(&mut self) -> Result<(), ()> {
        Ok(())
    }
}

async fn process(input: &[u8]) -> (Vec<String>, Vec<scpi::Error>) {
    let mut dev = Dev { calls: vec![], errs: vec![] };
    let mut adapter = Script { data: input.to_vec() };
    let _ = dev.process::<128, _>(&mut adapter).await;
    (dev.calls, dev.errs)
}

#[tokio::test]
async fn reference_without_the_faulty_message() {
    let (calls, errs) = process(b"A:B;C \"x\ny\"\n").await;
    assert_eq!(calls, ["A:B", "A:C \"x\\ny\""]);
    assert_eq!(errs, []);

    let (calls, errs) = process(b"X #31\n").await;
    assert_eq!(calls, [] as [&str; 0]);
    // (the faulty message alone is not even reported before more data arrives)
    let _ = errs;
}

#[tokio::test]
async fn relative_header_selects_the_handler_below_the_header_path() {
    let (calls, errs) = process(b"X #31\nA:B;C \"x\ny\"\n").await;
    // `X` is undefined: exactly one error, and then A:B and A:C.
    assert_eq!(calls, ["A:B", "A:C \"x\\ny\""]);
    assert_eq!(errs, [scpi::Error::UndefinedHeader]);
}

#[tokio::test]
async fn relative_header_is_not_undefined() {
    let (calls, errs) = process(b"X #31\nA:B;D \"x\ny\"\n").await;
    assert_eq!(calls, ["A:B", "A:D \"x\\ny\""]);
    assert_eq!(errs, [scpi::Error::UndefinedHeader]);
}

#[tokio::test]
async fn undefined_header_behind_it_is_reported_once() {
    let (calls, errs) = process(b"X #31\nY \"x\ny\"\n").await;
    assert_eq!(calls, [] as [&str; 0]);
    // one for X, one for Y
    assert_eq!(errs, [scpi::Error::UndefinedHeader, scpi::Error::UndefinedHeader]);
}
