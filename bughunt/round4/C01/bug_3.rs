//! C01: `Interface::run` returns the input it could not parse yet so that the caller can
//! pass it again together with the data that follows. A header that is cut off inside a
//! mnemonic is nevertheless looked up immediately: a correct header reports a spurious
//! 'Undefined header', an undefined header is reported twice.
use microscpi::{self as scpi, Interface};

pub struct Dev {
    calls: Vec<&'static str>,
    errs: Vec<scpi::Error>,
}

impl scpi::ErrorHandler for Dev {
    fn handle_error(&mut self, error: scpi::Error) {
        self.errs.push(error);
    }
}

#[scpi::interface]
impl Dev {
    #[scpi(cmd = "SYSTem:VALue?")]
    async fn value(&mut self) -> Result<u8, scpi::Error> {
        self.calls.push("value");
        Ok(1)
    }
}

/// Feeds `first`, then whatever `run` handed back followed by `second`.
async fn feed(first: &[u8], second: &[u8]) -> (Vec<&'static str>, Vec<scpi::Error>) {
    let mut dev = Dev { calls: vec![], errs: vec![] };
    let mut out: heapless::Vec<u8, 64> = heapless::Vec::new();
    let mut pending = dev.run(first, &mut out).await.to_vec();
    pending.extend_from_slice(second);
    let rest = dev.run(&pending, &mut out).await;
    assert!(rest.is_empty());
    (dev.calls, dev.errs)
}

#[tokio::test]
async fn reference_cut_between_header_and_terminator() {
    assert_eq!(feed(b"SYST:VAL?", b"\n").await, (vec!["value"], vec![]));
    assert_eq!(feed(b"SYST:VAL", b"?\n").await, (vec!["value"], vec![]));
}

#[tokio::test]
async fn correct_header_cut_inside_a_mnemonic() {
    assert_eq!(feed(b"SYST:VA", b"L?\n").await, (vec!["value"], vec![]));
}

#[tokio::test]
async fn correct_header_cut_behind_a_colon() {
    assert_eq!(feed(b"SYST:", b"VAL?\n").await, (vec!["value"], vec![]));
}

#[tokio::test]
async fn undefined_header_is_reported_once() {
    assert_eq!(feed(b"SYST:VA", b"LU?\n").await, (vec![], vec![scpi::Error::UndefinedHeader]));
}
