//! C01: a header with an extra level behind a declared common command (`*RST:FOO`,
//! `*IDN:FOO?`) or a common command header without its mnemonic (`*`) is not reported as
//! 'Undefined header' (-113) but as 'Invalid character' (-101).
use microscpi::{self as scpi, Interface};

pub struct Dev {
    calls: Vec<&'static str>,
    errs: Vec<scpi::Error>,
}

impl scpi::ErrorHandler for Dev {
    fn handle_error(&mut self, error: scpi::Error) {
        self.errs.push(error);
    }
}

#[scpi::interface]
impl Dev {
    #[scpi(cmd = "*RST")]
    async fn rst(&mut self) -> Result<(), scpi::Error> {
        self.calls.push("rst");
        Ok(())
    }

    #[scpi(cmd = "*IDN?")]
    async fn idn(&mut self) -> Result<&str, scpi::Error> {
        self.calls.push("idn");
        Ok("x")
    }

    #[scpi(cmd = "FOO")]
    async fn foo(&mut self) -> Result<(), scpi::Error> {
        self.calls.push("foo");
        Ok(())
    }

    #[scpi(cmd = "FOO:BAR?")]
    async fn foo_bar(&mut self) -> Result<u8, scpi::Error> {
        self.calls.push("foo_bar");
        Ok(1)
    }
}

async fn run(msg: &[u8]) -> (Vec<&'static str>, Vec<scpi::Error>) {
    let mut dev = Dev { calls: vec![], errs: vec![] };
    let mut out: heapless::Vec<u8, 64> = heapless::Vec::new();
    let rest = dev.run(msg, &mut out).await;
    assert!(rest.is_empty());
    (dev.calls, dev.errs)
}

#[tokio::test]
async fn extra_level_behind_a_compound_header_is_an_undefined_header() {
    // Reference: the same near miss on a compound header is reported correctly.
    assert_eq!(run(b"FOO:BAR:FOO?\n").await, (vec![], vec![scpi::Error::UndefinedHeader]));
    assert_eq!(run(b"FOO:FOO\n").await, (vec![], vec![scpi::Error::UndefinedHeader]));
    // An undeclared common command with an extra level as well.
    assert_eq!(run(b"*XYZ:FOO\n").await, (vec![], vec![scpi::Error::UndefinedHeader]));
}

#[tokio::test]
async fn extra_level_behind_a_common_command_is_an_undefined_header() {
    assert_eq!(run(b"*RST:FOO\n").await, (vec![], vec![scpi::Error::UndefinedHeader]));
}

#[tokio::test]
async fn extra_level_behind_a_common_query_is_an_undefined_header() {
    assert_eq!(run(b"*IDN:FOO?\n").await, (vec![], vec![scpi::Error::UndefinedHeader]));
}

#[tokio::test]
async fn common_header_with_missing_mnemonic_is_an_undefined_header() {
    assert_eq!(run(b"*\n").await, (vec![], vec![scpi::Error::UndefinedHeader]));
    assert_eq!(run(b"*?\n").await, (vec![], vec![scpi::Error::UndefinedHeader]));
}
