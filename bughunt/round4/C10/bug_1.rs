//! C10, bug 1: a message whose last unit carries a block header with a truncated
//! length field (`#2\n`, `#9\n`) is not recognised as complete when its terminator
//! arrives. `process` goes back to `read` without answering the query that precedes
//! the faulty unit (or the valid query message that follows it), although the
//! library itself later decides that the message ended at exactly that newline.

use microscpi::{self as scpi, Adapter, Interface};

struct Dev {
    errors: Vec<scpi::Error>,
    idn_calls: usize,
}

impl scpi::ErrorHandler for Dev {
    fn handle_error(&mut self, error: scpi::Error) {
        self.errors.push(error);
    }
}

#[scpi::interface]
impl Dev {
    #[scpi(cmd = "*IDN?")]
    async fn idn(&mut self) -> Result<&str, scpi::Error> {
        self.idn_calls += 1;
        Ok("dev")
    }

    #[scpi(cmd = "A")]
    async fn a(&mut self, _data: &[u8]) -> Result<(), scpi::Error> {
        Ok(())
    }
}

#[derive(Debug, Clone, PartialEq)]
enum Ev {
    /// `read` delivered this message (the controller sends one message per call).
    Sent(&'static str),
    /// `read` was called although the controller has nothing more to send: it is
    /// still waiting for an answer, or the script is over. Returns the error `Eof`.
    ReadWithNothingToSend,
    Write(String),
    Flush,
}

#[derive(Debug, PartialEq)]
struct Eof;

/// A controller that sends one whole message per `read` call.
struct Controller {
    script: Vec<&'static str>,
    next: usize,
    events: Vec<Ev>,
}

impl Adapter for Controller {
    type Error = Eof;

    async fn read(&mut self, dst: &mut [u8]) -> Result<usize, Eof> {
        match self.script.get(self.next) {
            Some(message) => {
                self.next += 1;
                dst[..message.len()].copy_from_slice(message.as_bytes());
                self.events.push(Ev::Sent(message));
                Ok(message.len())
            }
            None => {
                self.events.push(Ev::ReadWithNothingToSend);
                Err(Eof)
            }
        }
    }

    async fn write(&mut self, src: &[u8]) -> Result<(), Eof> {
        self.events.push(Ev::Write(String::from_utf8_lossy(src).into_owned()));
        Ok(())
    }

    async fn flush(&mut self) -> Result<(), Eof> {
        self.events.push(Ev::Flush);
        Ok(())
    }
}

async fn run(script: &[&'static str]) -> (Vec<Ev>, Dev) {
    let mut dev = Dev { errors: Vec::new(), idn_calls: 0 };
    let mut controller = Controller { script: script.to_vec(), next: 0, events: Vec::new() };
    assert_eq!(dev.process::<64, _>(&mut controller).await, Err(Eof));
    (controller.events, dev)
}

/// The library's own verdict: as soon as enough further bytes have arrived, the message
/// `*IDN?;A #2\n` is treated as a message that ended at its newline (the query is answered,
/// the faulty unit is reported, the next message is executed as a message of its own).
/// This part passes; it shows that the newline *was* the terminator.
#[tokio::test]
async fn the_library_itself_takes_the_newline_for_the_terminator() {
    let (events, dev) = run(&["*IDN?;A #2\n", "*IDN?\n"]).await;
    assert_eq!(dev.idn_calls, 2);
    assert_eq!(dev.errors.len(), 1);
    assert_eq!(events.last(), Some(&Ev::ReadWithNothingToSend));
    let written: String = events
        .iter()
        .filter_map(|event| match event {
            Ev::Write(text) => Some(text.as_str()),
            _ => None,
        })
        .collect();
    assert_eq!(written, "\"dev\"\n\"dev\"\n");
}

/// The controller sends `*IDN?;A #2\n` and waits for the answer to `*IDN?`.
#[tokio::test]
async fn query_before_a_truncated_block_header_is_answered_before_the_next_read() {
    let (events, _) = run(&["*IDN?;A #2\n"]).await;
    assert_eq!(events, [
        Ev::Sent("*IDN?;A #2\n"),
        Ev::Write("\"dev\"\n".into()),
        Ev::Flush,
        Ev::ReadWithNothingToSend,
    ]);
}

/// A faulty command message `A #9\n` (no response expected), then a perfectly valid query
/// message `*IDN?\n`. The controller waits for the answer to `*IDN?`.
#[tokio::test]
async fn query_message_after_a_truncated_block_header_is_answered_before_the_next_read() {
    let (events, _) = run(&["A #9\n", "*IDN?\n"]).await;
    assert_eq!(events, [
        Ev::Sent("A #9\n"),
        Ev::Sent("*IDN?\n"),
        Ev::Write("\"dev\"\n".into()),
        Ev::Flush,
        Ev::ReadWithNothingToSend,
    ]);
}
