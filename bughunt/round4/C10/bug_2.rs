//! C10, bug 2: an over-long message (longer than the buffer `N`) that contains a newline
//! inside a string is discarded only up to that newline, not up to its terminator. The
//! rest of the over-long message is taken for a new message; its closing quote opens a
//! "string" that swallows the following, valid query messages. They are never answered:
//! a controller that waits for the answer is deadlocked.

use microscpi::{self as scpi, Adapter, Interface};

struct Dev {
    errors: Vec<scpi::Error>,
    idn_calls: usize,
}

impl scpi::ErrorHandler for Dev {
    fn handle_error(&mut self, error: scpi::Error) {
        self.errors.push(error);
    }
}

#[scpi::interface]
impl Dev {
    #[scpi(cmd = "*IDN?")]
    async fn idn(&mut self) -> Result<&str, scpi::Error> {
        self.idn_calls += 1;
        Ok("dev")
    }

    #[scpi(cmd = "S")]
    async fn s(&mut self, _text: &str) -> Result<(), scpi::Error> {
        Ok(())
    }
}

#[derive(Debug, Clone, PartialEq)]
enum Ev {
    /// `read` delivered (a part of) message number `.0`.
    Sent(usize),
    /// `read` was called although the controller has nothing more to send: it is
    /// still waiting for an answer, or the script is over. Returns the error `Eof`.
    ReadWithNothingToSend,
    Write(String),
    Flush,
}

#[derive(Debug, PartialEq)]
struct Eof;

/// A controller that sends its messages one after the other, as much of the current
/// message per `read` call as fits.
struct Controller {
    script: Vec<Vec<u8>>,
    next: usize,
    events: Vec<Ev>,
}

impl Adapter for Controller {
    type Error = Eof;

    async fn read(&mut self, dst: &mut [u8]) -> Result<usize, Eof> {
        match self.script.get_mut(self.next) {
            Some(message) => {
                let count = message.len().min(dst.len());
                dst[..count].copy_from_slice(&message[..count]);
                message.drain(..count);
                self.events.push(Ev::Sent(self.next));
                if message.is_empty() {
                    self.next += 1;
                }
                Ok(count)
            }
            None => {
                self.events.push(Ev::ReadWithNothingToSend);
                Err(Eof)
            }
        }
    }

    async fn write(&mut self, src: &[u8]) -> Result<(), Eof> {
        self.events.push(Ev::Write(String::from_utf8_lossy(src).into_owned()));
        Ok(())
    }

    async fn flush(&mut self) -> Result<(), Eof> {
        self.events.push(Ev::Flush);
        Ok(())
    }
}

async fn run(script: &[&[u8]]) -> (Vec<Ev>, Dev) {
    let mut dev = Dev { errors: Vec::new(), idn_calls: 0 };
    let mut controller =
        Controller { script: script.iter().map(|m| m.to_vec()).collect(), next: 0, events: Vec::new() };
    assert_eq!(dev.process::<16, _>(&mut controller).await, Err(Eof));
    (controller.events, dev)
}

/// One message of 24 bytes (buffer: 16 bytes) with a newline inside its string parameter.
const OVER_LONG: &[u8] = b"S 'aaaaaaaaaaaaaaaaa\nb'\n";

/// Control: without the newline inside the string the over-long message is discarded and
/// the next message is answered. This part passes.
#[tokio::test]
async fn control_over_long_message_without_inner_newline() {
    let (events, dev) = run(&[b"S 'aaaaaaaaaaaaaaaaaab'\n", b"*IDN?\n"]).await;
    assert_eq!(dev.idn_calls, 1);
    assert_eq!(events, [
        Ev::Sent(0),
        Ev::Sent(0),
        Ev::Sent(1),
        Ev::Write("\"dev\"\n".into()),
        Ev::Flush,
        Ev::ReadWithNothingToSend,
    ]);
}

#[tokio::test]
async fn query_after_an_over_long_message_is_answered_before_the_next_read() {
    let (events, dev) = run(&[OVER_LONG, b"*IDN?\n"]).await;
    assert_eq!(events, [
        Ev::Sent(0),
        Ev::Sent(0),
        Ev::Sent(1),
        Ev::Write("\"dev\"\n".into()),
        Ev::Flush,
        Ev::ReadWithNothingToSend,
    ]);
    assert_eq!(dev.idn_calls, 1);
}

/// Repeating the query does not help: every further message disappears in the "string".
#[tokio::test]
async fn queries_after_an_over_long_message_are_answered_at_all() {
    let (events, dev) = run(&[OVER_LONG, b"*IDN?\n", b"*IDN?\n", b"*IDN?\n"]).await;
    let written: String = events
        .iter()
        .filter_map(|event| match event {
            Ev::Write(text) => Some(text.as_str()),
            _ => None,
        })
        .collect();
    assert_eq!(written, "\"dev\"\n\"dev\"\n\"dev\"\n");
    assert_eq!(dev.idn_calls, 3);
}
