//! C05 / bug 1: the tail of an over-long message is executed when the message
//! contains a newline inside a string (or a block of arbitrary data).
//!
//! `process` discards a message that does not fit into its buffer "up to its
//! terminator", but while discarding it takes the first newline for the
//! terminator, although a newline inside a string or a block does not end a
//! message (as `is_complete_message` / `skip_message` and the parser agree).
//! The content of the string is then executed as commands.

use microscpi::{self as scpi, Adapter, Interface};

#[derive(Default)]
struct Device {
    resets: usize,
    confs: Vec<String>,
    errors: Vec<scpi::Error>,
}

impl scpi::ErrorHandler for Device {
    fn handle_error(&mut self, error: scpi::Error) {
        self.errors.push(error);
    }
}

#[scpi::interface]
impl Device {
    #[scpi(cmd = "*RST")]
    async fn rst(&mut self) -> Result<(), scpi::Error> {
        self.resets += 1;
        Ok(())
    }

    #[scpi(cmd = "*IDN?")]
    async fn idn(&mut self) -> Result<&str, scpi::Error> {
        Ok("X")
    }

    #[scpi(cmd = "CONF")]
    async fn conf(&mut self, text: &str) -> Result<(), scpi::Error> {
        self.confs.push(text.into());
        Ok(())
    }
}

/// Hands out the stream in reads of at most `chunk` bytes, then fails.
struct Script<'a> {
    data: &'a [u8],
    chunk: usize,
    written: Vec<u8>,
}

impl Adapter for Script<'_> {
    type Error = ();

    async fn read(&mut self, dst: &mut [u8]) -> Result<usize, ()> {
        if self.data.is_empty() {
            return Err(());
        }
        let count = self.chunk.min(dst.len()).min(self.data.len());
        dst[..count].copy_from_slice(&self.data[..count]);
        self.data = &self.data[count..];
        Ok(count)
    }

    async fn write(&mut self, src: &[u8]) -> Result<(), ()> {
        self.written.extend_from_slice(src);
        Ok(())
    }

    async fn flush(&mut self) -> Result<(), ()> {
        Ok(())
    }
}

/// One program message of 30 bytes: `CONF` with a string that holds two newlines.
const LONG: &[u8] = b"CONF \"0123456789abcdef\n*RST\n\"\n";

#[tokio::test]
async fn the_message_fits_into_a_larger_buffer() {
    // Sanity: with a buffer of 64 bytes this is one message, and `*RST` is data.
    let mut stream = LONG.to_vec();
    stream.extend_from_slice(b"*IDN?\n");

    let mut device = Device::default();
    let mut adapter = Script { data: &stream, chunk: 1, written: Vec::new() };
    let _ = device.process::<64, _>(&mut adapter).await;

    assert_eq!(device.confs, ["0123456789abcdef\n*RST\n"]);
    assert_eq!(device.resets, 0);
    assert_eq!(adapter.written, b"\"X\"\n");
}

#[tokio::test]
async fn string_with_newline_in_oversized_message() {
    let mut stream = LONG.to_vec();
    stream.extend_from_slice(b"*IDN?\n");

    for chunk in [1, 3, 16, 64] {
        let mut device = Device::default();
        let mut adapter = Script { data: &stream, chunk, written: Vec::new() };
        let _ = device.process::<16, _>(&mut adapter).await;

        // The message is longer than the 16 byte buffer: it cannot be served and has
        // to be discarded (or reported), but no part of it may be executed.
        assert_eq!(device.confs.len(), 0, "chunk {chunk}");
        assert_eq!(
            device.resets, 0,
            "chunk {chunk}: the text inside the string of the discarded message was executed as *RST"
        );
        // The message behind the over-long one is served again.
        assert_eq!(adapter.written, b"\"X\"\n", "chunk {chunk}");
    }
}

#[tokio::test]
async fn block_with_newline_in_oversized_message() {
    #[derive(Default)]
    struct Blocks {
        resets: usize,
    }

    impl scpi::ErrorHandler for Blocks {
        fn handle_error(&mut self, _error: scpi::Error) {}
    }

    #[scpi::interface]
    impl Blocks {
        #[scpi(cmd = "*RST")]
        async fn rst(&mut self) -> Result<(), scpi::Error> {
            self.resets += 1;
            Ok(())
        }

        #[scpi(cmd = "DATA")]
        async fn data(&mut self, _data: &[u8]) -> Result<(), scpi::Error> {
            Ok(())
        }
    }

    // `DATA` with a block of 22 bytes: 16 bytes, a newline and `*RST` and another newline.
    let stream = b"DATA #2220123456789abcdef\n*RST\n\n";

    // Sanity: in a buffer of 64 bytes this is one message and `*RST` is data.
    let mut device = Blocks::default();
    let mut adapter = Script { data: stream, chunk: 1, written: Vec::new() };
    let _ = device.process::<64, _>(&mut adapter).await;
    assert_eq!(device.resets, 0);

    let mut device = Blocks::default();
    let mut adapter = Script { data: stream, chunk: 1, written: Vec::new() };
    let _ = device.process::<16, _>(&mut adapter).await;

    assert_eq!(device.resets, 0, "the content of the block of the discarded message was executed");
}
