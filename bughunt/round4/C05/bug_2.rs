//! C05 / bug 2: the first units of an over-long message are executed, because a
//! message is started before it has arrived completely.
//!
//! A block header `#<n>` that is followed by fewer than `n` bytes makes both the
//! parser (`Incomplete`) and `skip_message` (`None`) wait for more data, also when
//! the newline that ends the faulty message is already there. When more data
//! arrives they change their mind: the `n` bytes are not a length, the message is
//! faulty and ends at its *first* newline. `is_complete_message` then says `true`
//! for a buffer `M1 \n <beginning of M2> \n`, where the last newline is part of a
//! string of M2, and `run` executes the first units of the incomplete message M2.
//! If M2 later turns out not to fit into the buffer, its remainder is discarded:
//! an over-long message has been executed in part.

use microscpi::{self as scpi, Adapter, Interface};

#[derive(Default)]
struct Device {
    resets: usize,
    confs: Vec<String>,
    errors: Vec<scpi::Error>,
}

impl scpi::ErrorHandler for Device {
    fn handle_error(&mut self, error: scpi::Error) {
        self.errors.push(error);
    }
}

#[scpi::interface]
impl Device {
    #[scpi(cmd = "*RST")]
    async fn rst(&mut self) -> Result<(), scpi::Error> {
        self.resets += 1;
        Ok(())
    }

    #[scpi(cmd = "*IDN?")]
    async fn idn(&mut self) -> Result<&str, scpi::Error> {
        Ok("X")
    }

    #[scpi(cmd = "CONF")]
    async fn conf(&mut self, text: &str) -> Result<(), scpi::Error> {
        self.confs.push(text.into());
        Ok(())
    }

    #[scpi(cmd = "DATA")]
    async fn data(&mut self, _data: &[u8]) -> Result<(), scpi::Error> {
        Ok(())
    }
}

/// Hands out the stream in reads of at most `chunk` bytes, then fails.
struct Script<'a> {
    data: &'a [u8],
    chunk: usize,
    written: Vec<u8>,
}

impl Adapter for Script<'_> {
    type Error = ();

    async fn read(&mut self, dst: &mut [u8]) -> Result<usize, ()> {
        if self.data.is_empty() {
            return Err(());
        }
        let count = self.chunk.min(dst.len()).min(self.data.len());
        dst[..count].copy_from_slice(&self.data[..count]);
        self.data = &self.data[count..];
        Ok(count)
    }

    async fn write(&mut self, src: &[u8]) -> Result<(), ()> {
        self.written.extend_from_slice(src);
        Ok(())
    }

    async fn flush(&mut self) -> Result<(), ()> {
        Ok(())
    }
}

fn stream() -> Vec<u8> {
    let mut stream = Vec::new();
    // M1, 8 bytes: a truncated block, nine length digits are announced but missing.
    stream.extend_from_slice(b"DATA #9\n");
    // M2, 55 bytes: two units, the string of the second one holds a newline.
    stream.extend_from_slice(b"*RST;CONF \"p\n");
    stream.extend_from_slice(&[b'q'; 40]);
    stream.extend_from_slice(b"\"\n");
    // M3
    stream.extend_from_slice(b"*IDN?\n");
    stream
}

#[tokio::test]
async fn everything_fits_into_a_larger_buffer() {
    // Sanity: M2 is one message, served completely when there is room for it.
    let stream = stream();
    let mut device = Device::default();
    let mut adapter = Script { data: &stream, chunk: 1, written: Vec::new() };
    let _ = device.process::<128, _>(&mut adapter).await;

    assert_eq!(device.resets, 1);
    assert_eq!(device.confs.len(), 1);
    assert_eq!(adapter.written, b"\"X\"\n");
}

#[tokio::test]
async fn head_of_oversized_message_is_executed() {
    let stream = stream();

    for chunk in [1, 5, 32] {
        let mut device = Device::default();
        let mut adapter = Script { data: &stream, chunk, written: Vec::new() };
        let _ = device.process::<32, _>(&mut adapter).await;

        // M2 has 55 bytes and does not fit into the buffer of 32 bytes. Its second unit
        // is (rightly) never executed ...
        assert_eq!(device.confs.len(), 0, "chunk {chunk}");
        // ... so its first unit must not be executed either: the message is discarded.
        assert_eq!(
            device.resets, 0,
            "chunk {chunk}: *RST of a message that was discarded for its length was executed"
        );
        // M3 is served.
        assert_eq!(adapter.written, b"\"X\"\n", "chunk {chunk}");
    }
}
