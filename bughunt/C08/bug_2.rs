//! C08 bug 2 (borderline, concerns the block framing): a definite-length block
//! whose length field has nine digits ("#9ddddddddd<payload>") is legal IEEE
//! 488.2 syntax, but `arbitrary_program_data` accepts the digit count only in
//! `b'1'..b'9'`, an exclusive range that leaves out '9'. The payload of such a
//! block is not delivered; the unit is rejected with an error.
use microscpi::{self as scpi, ErrorHandler, Interface};

#[derive(Debug, PartialEq, Clone)]
pub enum Ev {
    Blk(Vec<u8>),
    Err(scpi::Error),
}

pub struct Dev {
    log: Vec<Ev>,
}

impl ErrorHandler for Dev {
    fn handle_error(&mut self, error: scpi::Error) {
        self.log.push(Ev::Err(error));
    }
}

#[scpi::interface]
impl Dev {
    #[scpi(cmd = "DATA:BLock")]
    async fn b(&mut self, a: &[u8]) -> Result<(), scpi::Error> {
        self.log.push(Ev::Blk(a.into()));
        Ok(())
    }
}

async fn whole(msg: &[u8]) -> Vec<Ev> {
    let mut d = Dev { log: vec![] };
    let mut out: heapless::Vec<u8, 64> = heapless::Vec::new();
    let rem = d.run(msg, &mut out).await;
    assert!(rem.is_empty());
    d.log
}

#[tokio::test]
async fn nine_digit_length_field() {
    // eight digits work
    assert_eq!(whole(b"DATA:BL #800000003a\nc\n").await, vec![Ev::Blk(b"a\nc".to_vec())]);
    // nine digits are rejected
    assert_eq!(whole(b"DATA:BL #9000000003a\nc\n").await, vec![Ev::Blk(b"a\nc".to_vec())]);
}
