//! C08 bug 1: the error recovery of `Interface::run` resynchronises on the first
//! 0x0A byte of the rest of the input, even when that byte is inside the payload
//! of a quoted string or of a definite-length block of the same message. The
//! payload newline then ends the message, the rest of the payload is parsed as
//! a new program message (a command hidden in the payload is EXECUTED) and
//! additional errors are reported.
use microscpi::{self as scpi, Adapter, ErrorHandler, Interface};

#[derive(Debug, PartialEq, Clone)]
pub enum Ev {
    Rst,
    Str(String),
    Blk(Vec<u8>),
    Err(scpi::Error),
}

pub struct Dev {
    log: Vec<Ev>,
}

impl ErrorHandler for Dev {
    fn handle_error(&mut self, error: scpi::Error) {
        self.log.push(Ev::Err(error));
    }
}

#[scpi::interface]
impl Dev {
    #[scpi(cmd = "*RST")]
    async fn rst(&mut self) -> Result<(), scpi::Error> {
        self.log.push(Ev::Rst);
        Ok(())
    }
    #[scpi(cmd = "DATA:STRing")]
    async fn s(&mut self, a: &str) -> Result<(), scpi::Error> {
        self.log.push(Ev::Str(a.into()));
        Ok(())
    }
    #[scpi(cmd = "DATA:BLock")]
    async fn b(&mut self, a: &[u8]) -> Result<(), scpi::Error> {
        self.log.push(Ev::Blk(a.into()));
        Ok(())
    }
}

struct Script {
    chunks: Vec<Vec<u8>>,
    next: usize,
    out: Vec<u8>,
}

impl Adapter for Script {
    type Error = ();
    async fn read(&mut self, dst: &mut [u8]) -> Result<usize, ()> {
        if self.next >= self.chunks.len() {
            return Err(());
        }
        let c = &mut self.chunks[self.next];
        let n = c.len().min(dst.len());
        dst[..n].copy_from_slice(&c[..n]);
        c.drain(..n);
        if c.is_empty() {
            self.next += 1;
        }
        Ok(n)
    }
    async fn write(&mut self, src: &[u8]) -> Result<(), ()> {
        self.out.extend_from_slice(src);
        Ok(())
    }
    async fn flush(&mut self) -> Result<(), ()> {
        Ok(())
    }
}

async fn whole(msg: &[u8]) -> Vec<Ev> {
    let mut d = Dev { log: vec![] };
    let mut out: heapless::Vec<u8, 64> = heapless::Vec::new();
    let rem = d.run(msg, &mut out).await;
    assert!(rem.is_empty());
    d.log
}

async fn streamed(msg: &[u8]) -> Vec<Ev> {
    let mut d = Dev { log: vec![] };
    let mut a = Script { chunks: vec![msg.to_vec()], next: 0, out: vec![] };
    let _ = d.process::<64, _>(&mut a).await;
    d.log
}

/// One message: an undefined header, then a unit whose string payload holds
/// "\n*RST\n". Without the two newlines in the payload the library reports one
/// error and executes nothing; the property demands the same with them.
#[tokio::test]
async fn payload_newline_after_faulty_unit_string_run() {
    let reference = whole(b"FOO;DATA:STR 'x*RST'\n").await;
    assert_eq!(reference, vec![Ev::Err(scpi::Error::UndefinedHeader)]);

    let log = whole(b"FOO;DATA:STR 'x\n*RST\n'\n").await;
    assert!(!log.contains(&Ev::Rst), "a command inside a string payload was executed: {log:?}");
    assert_eq!(log, reference);
}

#[tokio::test]
async fn payload_newline_after_faulty_unit_string_process() {
    let log = streamed(b"FOO;DATA:STR 'x\n*RST\n'\n").await;
    assert!(!log.contains(&Ev::Rst), "a command inside a string payload was executed: {log:?}");
    assert_eq!(log, vec![Ev::Err(scpi::Error::UndefinedHeader)]);
}

/// The same with a definite-length block.
#[tokio::test]
async fn payload_newline_after_faulty_unit_block_run() {
    let reference = whole(b"FOO;DATA:BL #16x*RSTy\n").await;
    assert_eq!(reference, vec![Ev::Err(scpi::Error::UndefinedHeader)]);

    let log = whole(b"FOO;DATA:BL #17x\n*RST\n\n").await;
    assert!(!log.contains(&Ev::Rst), "a command inside a block payload was executed: {log:?}");
    assert_eq!(log, reference);
}

/// The fault may also come after the payload, in the same unit: the payload
/// newline still ends the message and the tail of the payload is reported as a
/// second, unrelated error.
#[tokio::test]
async fn payload_newline_before_fault_in_same_unit() {
    let reference = whole(b"DATA:STR 'ab' junk\n").await;
    assert_eq!(reference.len(), 1, "{reference:?}");

    let log = whole(b"DATA:STR 'a\nb' junk\n").await;
    assert_eq!(log, reference);
}
